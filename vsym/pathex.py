"""pathex (engine E2): native concolic path exploration of real Python code with z3.

Symbolic values are proxy objects (SInt / SBool) wrapping z3 terms.  The real code under
analysis is executed natively; the only fork point is ``__bool__`` (and concretisation at
``__index__``/``__hash__``/``__int__``).  Paths are explored depth-first by re-execution
with a recorded decision prefix.  At each ``ctx.require(label, cond)`` the engine asks z3
whether ``pc AND NOT cond`` is satisfiable: ``unsat`` means the assertion holds for every
value of the still-symbolic variables on that path, ``sat`` yields a concrete
counterexample, ``unknown`` is inconclusive.

The same harness function can be run under a ``ConcreteCtx`` (plain Python ints/bools
taken from a model) which is how counterexamples are replayed against the real code with
no solver and no proxies involved.
"""
from __future__ import annotations

import multiprocessing
import zlib
import os
import time
import traceback
from typing import Any, Callable

import z3

__all__ = [
    "SInt", "SBool", "Ctx", "ConcreteCtx", "explore", "replay", "HarnessError",
    "PathInfeasible", "And", "Or", "Not", "Implies", "If",
]


class HarnessError(Exception):
    """The harness (not the code under test) misbehaved: non-determinism, budget, ..."""


class PathInfeasible(BaseException):
    """Raised by ctx.assume when the path condition becomes unsatisfiable."""


_CUR: list["Ctx"] = []


def _ctx() -> "Ctx":
    if not _CUR:
        raise HarnessError("symbolic value used outside an active exploration")
    return _CUR[-1]


def _z(v):
    """Lift a Python/symbolic value to a z3 term."""
    if isinstance(v, SInt):
        return v.z
    if isinstance(v, SBool):
        return v.z
    if isinstance(v, bool):
        return z3.BoolVal(v)
    if isinstance(v, int):
        return z3.IntVal(v)
    return None


def _zi(v):
    """Lift to an integer term (bools become 0/1)."""
    if isinstance(v, SInt):
        return v.z
    if isinstance(v, SBool):
        return z3.If(v.z, z3.IntVal(1), z3.IntVal(0))
    if isinstance(v, bool):
        return z3.IntVal(int(v))
    if isinstance(v, int):
        return z3.IntVal(v)
    return None


class SBool:
    __slots__ = ("z",)

    def __init__(self, z):
        self.z = z

    def __bool__(self):
        return _ctx().branch(self.z)

    def __and__(self, o):
        oz = _z(o)
        return NotImplemented if oz is None else SBool(z3.And(self.z, _asbool(oz)))

    __rand__ = __and__

    def __or__(self, o):
        oz = _z(o)
        return NotImplemented if oz is None else SBool(z3.Or(self.z, _asbool(oz)))

    __ror__ = __or__

    def __invert__(self):
        return SBool(z3.Not(self.z))

    def __eq__(self, o):  # type: ignore[override]
        oz = _z(o)
        if oz is None:
            return False
        return SBool(self.z == _asbool(oz))

    def __ne__(self, o):  # type: ignore[override]
        oz = _z(o)
        if oz is None:
            return True
        return SBool(self.z != _asbool(oz))

    def __hash__(self):
        return hash(bool(self))

    def __int__(self):
        return int(bool(self))

    def __index__(self):
        return int(bool(self))

    def __add__(self, o):
        return SInt(_zi(self)) + o

    __radd__ = __add__

    def __repr__(self):
        return "<" + _short(self.z) + ">"

    __str__ = __repr__


def _asbool(z):
    if z3.is_bool(z):
        return z
    return z != 0


def _short(z) -> str:
    return " ".join(z.sexpr().split())


class SInt:
    __slots__ = ("z",)

    def __init__(self, z):
        self.z = z

    # -- arithmetic ---------------------------------------------------------------
    def _bin(self, o, f, rev=False):
        oz = _zi(o)
        if oz is None:
            return NotImplemented
        return SInt(z3.simplify(f(oz, self.z) if rev else f(self.z, oz)))

    def __add__(self, o):
        return self._bin(o, lambda a, b: a + b)

    def __radd__(self, o):
        return self._bin(o, lambda a, b: a + b, True)

    def __sub__(self, o):
        return self._bin(o, lambda a, b: a - b)

    def __rsub__(self, o):
        return self._bin(o, lambda a, b: a - b, True)

    def __mul__(self, o):
        if isinstance(o, (str, list, tuple, bytes)):
            return o * int(self)
        return self._bin(o, lambda a, b: a * b)

    def __rmul__(self, o):
        if isinstance(o, (str, list, tuple, bytes)):
            return o * int(self)
        return self._bin(o, lambda a, b: a * b, True)

    def __neg__(self):
        return SInt(-self.z)

    def __pos__(self):
        return self

    def __abs__(self):
        return SInt(z3.If(self.z >= 0, self.z, -self.z))

    def __floordiv__(self, o):
        if isinstance(o, int) and not isinstance(o, bool) and o > 0:
            return SInt(self.z / z3.IntVal(o))  # z3 int div == floor for positive divisor
        return int(self) // int(o)

    def __rfloordiv__(self, o):
        return int(o) // int(self)

    def __mod__(self, o):
        if isinstance(o, int) and not isinstance(o, bool) and o > 0:
            return SInt(self.z % z3.IntVal(o))
        return int(self) % int(o)

    def __rmod__(self, o):
        return int(o) % int(self)

    def __truediv__(self, o):
        return int(self) / (int(o) if isinstance(o, SInt) else o)

    def __rtruediv__(self, o):
        return o / int(self)

    # -- comparisons --------------------------------------------------------------
    def _cmp(self, o, f):
        oz = _zi(o)
        if oz is None:
            if isinstance(o, float):
                return f(int(self), o)
            return NotImplemented
        return SBool(z3.simplify(f(self.z, oz)))

    def __lt__(self, o):
        return self._cmp(o, lambda a, b: a < b)

    def __le__(self, o):
        return self._cmp(o, lambda a, b: a <= b)

    def __gt__(self, o):
        return self._cmp(o, lambda a, b: a > b)

    def __ge__(self, o):
        return self._cmp(o, lambda a, b: a >= b)

    def __eq__(self, o):  # type: ignore[override]
        oz = _zi(o)
        if oz is None:
            if isinstance(o, float):
                return int(self) == o
            return False
        return SBool(z3.simplify(self.z == oz))

    def __ne__(self, o):  # type: ignore[override]
        oz = _zi(o)
        if oz is None:
            if isinstance(o, float):
                return int(self) != o
            return True
        return SBool(z3.simplify(self.z != oz))

    # -- conversions --------------------------------------------------------------
    def __bool__(self):
        return _ctx().branch(self.z != 0)

    def __index__(self):
        return _ctx().concretize(self.z)

    __int__ = __index__

    def __float__(self):
        return float(_ctx().concretize(self.z))

    def __hash__(self):
        return hash(_ctx().concretize(self.z))

    def __repr__(self):
        return "<" + _short(self.z) + ">"

    __str__ = __repr__

    def __format__(self, spec):
        if spec in ("", "s"):
            return repr(self)
        return format(int(self), spec)


# helpers usable with symbolic *and* concrete operands -------------------------------



# the symbolic integer stands for a real number wherever code asks (isinstance(x, numbers.Real)) - as an int does
import numbers as _numbers  # noqa: E402
_numbers.Real.register(SInt)

def _b(v):
    if isinstance(v, SBool):
        return v.z
    if isinstance(v, SInt):
        return v.z != 0
    return z3.BoolVal(bool(v))


def _sym(*vs):
    return any(isinstance(v, (SBool, SInt)) for v in vs)


def And(*vs):
    if not _sym(*vs):
        return all(vs)
    return SBool(z3.And(*[_b(v) for v in vs]))


def Or(*vs):
    if not _sym(*vs):
        return any(vs)
    return SBool(z3.Or(*[_b(v) for v in vs]))


def Not(v):
    if not _sym(v):
        return not v
    return SBool(z3.Not(_b(v)))


def Implies(a, b):
    if not _sym(a, b):
        return (not a) or bool(b)
    return SBool(z3.Implies(_b(a), _b(b)))


def If(c, a, b):
    if not _sym(c):
        return a if c else b
    if isinstance(a, (bool, SBool)) and isinstance(b, (bool, SBool)):
        return SBool(z3.If(_b(c), _b(a), _b(b)))
    return SInt(z3.If(_b(c), _zi(a), _zi(b)))


def Eq(a, b):
    """Equality that is safe for symbolic and concrete values alike."""
    if not _sym(a, b):
        return a == b
    if isinstance(a, (SBool, bool)) and isinstance(b, (SBool, bool)):
        return SBool(_b(a) == _b(b))
    za, zb = _zi(a), _zi(b)
    if za is None or zb is None:
        return False
    return SBool(za == zb)


# -----------------------------------------------------------------------------------


class Ctx:
    """One path of a symbolic exploration."""

    symbolic = True

    def __init__(self, prefix, deadline=None, solver_timeout_ms=20000):
        self.solver = z3.Solver()
        self.solver.set("timeout", solver_timeout_ms)
        self.prefix = prefix            # list of (decision, fingerprint, aux)
        self.pos = 0
        self.taken: list[tuple] = []
        self.pending: list[list[tuple]] = []
        self.vars: dict[str, Any] = {}
        self.facts: dict[str, Any] = {}
        self.covered: set[str] = set()
        self.cex: list[dict] = []
        self.required: dict[str, int] = {}
        self.unknowns: list[str] = []
        self.queries = 0
        self.solver_s = 0.0
        self.concretizations = 0
        self.deadline = deadline
        self.blockers: list[Callable[["Ctx"], Any]] = []

    # -- variables ----------------------------------------------------------------
    def int(self, name, lo=None, hi=None) -> SInt:
        if name in self.vars:
            raise HarnessError(f"variable {name} declared twice")
        v = z3.Int(name)
        self.vars[name] = v
        if lo is not None:
            self.solver.add(v >= lo)
        if hi is not None:
            self.solver.add(v <= hi)
        return SInt(v)

    def bool(self, name) -> SBool:
        if name in self.vars:
            raise HarnessError(f"variable {name} declared twice")
        v = z3.Bool(name)
        self.vars[name] = v
        return SBool(v)

    def choice(self, name, n) -> int:
        """A value in [0, n), enumerated by forking (deterministic order)."""
        if n <= 0:
            raise HarnessError("choice over empty range")
        v = self.int(name, 0, n - 1)
        for k in range(n - 1):
            if self.branch(v.z == k):
                return k
        return n - 1

    def pick(self, name, options):
        opts = list(options)
        k = self.choice(name, len(opts))
        self.facts[name] = _label(opts[k])
        return opts[k]

    def flag(self, name) -> bool:
        """A boolean enumerated by forking."""
        r = bool(self.bool(name))
        self.facts[name] = r
        return r

    def note(self, key, value):
        self.facts[key] = value

    def cover(self, label):
        self.covered.add(label)

    # -- solver -------------------------------------------------------------------
    def _check(self, *assumptions):
        if self.deadline is not None and time.time() > self.deadline:
            raise TimeoutError("exploration deadline reached")
        t = time.time()
        r = self.solver.check(*assumptions)
        self.solver_s += time.time() - t
        self.queries += 1
        return r

    def branch(self, cond) -> bool:
        raw = cond
        cond = z3.simplify(cond)
        if z3.is_true(cond):
            return True
        if z3.is_false(cond):
            return False
        return self._decide(cond, None, raw)

    def _decide(self, cond, aux, raw=None):
        # fingerprint of the expression as the harness built it (z3.simplify may order arguments by AST id)
        fp = zlib.crc32((raw if raw is not None else cond).sexpr().encode())
        if self.pos < len(self.prefix):
            d, pfp, _aux = self.prefix[self.pos]
            if pfp != fp:
                raise HarnessError(
                    f"non-deterministic replay at decision {self.pos}: "
                    f"met {_short(cond)[:120]}")
        else:
            t = self._check(cond)
            f = self._check(z3.Not(cond))
            if t == z3.unknown or f == z3.unknown:
                self.unknowns.append("branch:" + _short(cond)[:80])
            ts, fs = t != z3.unsat, f != z3.unsat
            if t == z3.unsat and f == z3.unsat:
                raise PathInfeasible()
            if ts and fs:
                self.pending.append(self.taken + [(False, fp, aux)])
                d = True
            else:
                d = ts
        self.pos += 1
        self.taken.append((d, fp, aux))
        self.solver.add(cond if d else z3.Not(cond))
        return d

    def concretize(self, e) -> int:
        e = z3.simplify(e)
        if z3.is_int_value(e):
            return e.as_long()
        self.concretizations += 1
        while True:
            if self.pos < len(self.prefix):
                v = self.prefix[self.pos][2]
                if v is None:
                    raise HarnessError("non-deterministic replay (concretize vs branch)")
            else:
                v = self._min_value(e)
            if self._decide(e == v, v):
                return v

    def _min_value(self, e) -> int:
        if self._check() != z3.sat:
            raise PathInfeasible()
        m = self.solver.model()
        v0 = m.eval(e, model_completion=True).as_long()
        if self._check(e != v0) == z3.unsat:
            return v0
        # smallest |e|, then smallest e: deterministic whatever the solver's model was
        opt = z3.Optimize()
        opt.set("timeout", 20000)
        for a in self.solver.assertions():
            opt.add(a)
        a = z3.If(e >= 0, e, -e)
        opt.minimize(a)
        opt.minimize(e)
        t = time.time()
        r = opt.check()
        self.solver_s += time.time() - t
        self.queries += 1
        if r != z3.sat:
            return v0
        return opt.model().eval(e, model_completion=True).as_long()

    def assume(self, cond):
        z = _b(cond)
        self.solver.add(z)
        if self._check() == z3.unsat:
            raise PathInfeasible()

    def require(self, label, cond, **info):
        """Assert that `cond` holds for every value of the symbolic variables on this path."""
        self.required[label] = self.required.get(label, 0) + 1
        z = z3.simplify(_b(cond))
        if z3.is_true(z):
            return True
        extra = []
        ok = True
        for _ in range(8):  # look past listed known findings for a different violation
            r = self._check(z3.Not(z), *extra)
            if r == z3.unsat:
                break
            if r == z3.unknown:
                self.unknowns.append("require:" + label)
                ok = False
                break
            ok = False
            m = self.solver.model()
            model = self._model_dict(m)
            self.cex.append({"label": label, "model": model, "facts": dict(self.facts),
                             "info": {k: _label(v) for k, v in info.items()}})
            blk = None
            for b in self.blockers:
                blk = b(self, self.cex[-1])
                if blk is not None:
                    break
            if blk is None:
                break
            self.cex[-1]["listed"] = True
            extra.append(z3.Not(_b(blk)))
        return ok

    def _model_dict(self, m):
        out = {}
        for n, v in self.vars.items():
            val = m.eval(v, model_completion=True)
            if z3.is_bool(v):
                out[n] = bool(z3.is_true(val))
            else:
                out[n] = val.as_long()
        return out

    def witness(self):
        if self._check() != z3.sat:
            return None
        return self._model_dict(self.solver.model())


class ConcreteCtx:
    """Runs the same harness with plain Python values taken from a model (replay)."""

    symbolic = False

    def __init__(self, values):
        self.values = dict(values)
        self.facts: dict[str, Any] = {}
        self.covered: set[str] = set()
        self.failed: list[dict] = []
        self.required: dict[str, int] = {}

    def int(self, name, lo=None, hi=None):
        v = int(self.values.get(name, lo if lo is not None else 0))
        if (lo is not None and v < lo) or (hi is not None and v > hi):
            raise PathInfeasible()
        return v

    def bool(self, name):
        return bool(self.values.get(name, False))

    def choice(self, name, n):
        v = int(self.values.get(name, 0))
        if not 0 <= v < n:
            raise PathInfeasible()
        return v

    def pick(self, name, options):
        opts = list(options)
        k = self.choice(name, len(opts))
        self.facts[name] = _label(opts[k])
        return opts[k]

    def flag(self, name):
        r = self.bool(name)
        self.facts[name] = r
        return r

    def note(self, key, value):
        self.facts[key] = value

    def cover(self, label):
        self.covered.add(label)

    def assume(self, cond):
        if not cond:
            raise PathInfeasible()

    def require(self, label, cond, **info):
        self.required[label] = self.required.get(label, 0) + 1
        if not cond:
            self.failed.append({"label": label, "facts": dict(self.facts),
                                "info": {k: _label(v) for k, v in info.items()}})
            return False
        return True


def _label(v):
    if isinstance(v, (str, int, float, bool)) or v is None:
        return v
    if isinstance(v, (SInt, SBool)):
        return repr(v)
    if isinstance(v, (list, tuple)):
        return [_label(x) for x in v]
    if isinstance(v, dict):
        return {str(k): _label(x) for k, x in v.items()}
    return getattr(v, "__name__", None) or repr(v)


# ------------------------------------------------------------------------------------


def _run_path(harness, prefix, deadline, blockers, reset):
    ctx = Ctx(prefix, deadline)
    ctx.blockers = list(blockers or [])
    if reset:
        reset()
    _CUR.append(ctx)
    status = "done"
    err = None
    try:
        harness(ctx)
    except PathInfeasible:
        status = "infeasible"
    except TimeoutError:
        status = "timeout"
    except HarnessError as e:
        status = "harness_error"
        err = str(e)
    except Exception as e:  # an exception escaping the harness is a harness bug
        status = "harness_error"
        err = "".join(traceback.format_exception(type(e), e, e.__traceback__))[-1500:]
    finally:
        _CUR.pop()
    if status == "done" and ctx.pos < len(prefix):
        status, err = "harness_error", "non-deterministic replay: prefix not consumed"
    return ctx, status, err


def _new_stats():
    return {"paths": 0, "infeasible": 0, "decisions": 0, "queries": 0, "solver_s": 0.0,
            "concretizations": 0, "cex": [], "unknowns": [], "errors": [],
            "required": {}, "covered": {}, "samples": [], "exhausted": True,
            "max_depth": 0}


def _merge(st, ctx, status, err, keep_samples):
    st["queries"] += ctx.queries
    st["solver_s"] += ctx.solver_s
    st["concretizations"] += ctx.concretizations
    st["decisions"] += max(0, len(ctx.taken) - len(ctx.prefix))
    st["max_depth"] = max(st["max_depth"], len(ctx.taken))
    if status == "infeasible":
        st["infeasible"] += 1
        return
    if status == "timeout":
        st["exhausted"] = False
        return
    if status == "harness_error":
        st["errors"].append(err)
        return
    st["paths"] += 1
    st["cex"].extend(ctx.cex)
    st["unknowns"].extend(ctx.unknowns)
    for k, v in ctx.required.items():
        st["required"][k] = st["required"].get(k, 0) + v
    for k in ctx.covered:
        st["covered"][k] = st["covered"].get(k, 0) + 1
    if len(st["samples"]) < keep_samples:
        w = ctx.witness()
        if w is not None:
            st["samples"].append({"model": w, "facts": dict(ctx.facts),
                                  "covered": sorted(ctx.covered)})


def _merge_stats(a, b):
    for k in ("paths", "infeasible", "decisions", "queries", "concretizations"):
        a[k] += b[k]
    a["solver_s"] += b["solver_s"]
    a["max_depth"] = max(a["max_depth"], b["max_depth"])
    a["cex"].extend(b["cex"])
    a["unknowns"].extend(b["unknowns"])
    a["errors"].extend(b["errors"])
    a["exhausted"] = a["exhausted"] and b["exhausted"]
    for k, v in b["required"].items():
        a["required"][k] = a["required"].get(k, 0) + v
    for k, v in b["covered"].items():
        a["covered"][k] = a["covered"].get(k, 0) + v
    room = 64 - len(a["samples"])
    if room > 0:
        a["samples"].extend(b["samples"][:room])


def _explore_serial(harness, roots, deadline, max_paths, blockers, reset, stop_at_pending=None,
                    max_cex=12, keep_samples=4, job_seconds=None):
    st = _new_stats()
    work = list(roots)
    t_job = time.time()
    while work:
        if job_seconds is not None and st["paths"] > 0 and time.time() - t_job > job_seconds:
            break
        if deadline is not None and time.time() > deadline:
            st["exhausted"] = False
            break
        if st["paths"] + st["infeasible"] >= max_paths:
            st["exhausted"] = False
            break
        if stop_at_pending is not None and (len(work) >= stop_at_pending or
                                            (len(work) >= 2 and time.time() - t_job > 1.0)):
            break
        if sum(1 for c in st["cex"] if not c.get("listed")) >= max_cex or len(st["errors"]) >= 3:
            st["exhausted"] = False
            break
        # breadth-first while splitting for the worker pool (the frontier must grow), depth-first otherwise
        prefix = work.pop(0) if stop_at_pending is not None else work.pop()
        ctx, status, err = _run_path(harness, prefix, deadline, blockers, reset)
        _merge(st, ctx, status, err, keep_samples)
        work.extend(ctx.pending)
    return st, work


_POOL_ARGS: dict = {}
_JOB_PATHS = 250          # a pool job gives back its unexplored prefixes after this many paths


def _pool_job(prefixes):
    a = _POOL_ARGS
    st, left = _explore_serial(a["harness"], list(prefixes), a["deadline"], _JOB_PATHS,
                               a["blockers"], a["reset"], keep_samples=a["keep_samples"], job_seconds=1.5)
    if left:
        st["exhausted"] = True      # not a budget overrun: the parent reschedules what is left
    return st, left


def explore(harness, *, timeout=120.0, max_paths=200000, workers=1, blockers=None, reset=None,
            keep_samples=4):
    """Explore every feasible path of `harness(ctx)`.  Returns a stats dict."""
    t0 = time.time()
    deadline = t0 + timeout
    if workers <= 1:
        st, left = _explore_serial(harness, [[]], deadline, max_paths, blockers, reset,
                                   keep_samples=keep_samples)
        if left:
            st["exhausted"] = False
    else:
        st, left = _explore_serial(harness, [[]], deadline, max_paths, blockers, reset,
                                   stop_at_pending=workers * 4, keep_samples=keep_samples)
        if left and st["exhausted"]:
            _POOL_ARGS.update(harness=harness, deadline=deadline, blockers=blockers, reset=reset,
                              keep_samples=max(1, keep_samples // 4))
            mp = multiprocessing.get_context("fork")
            queue = [[p] for p in left]
            inflight = []
            with mp.Pool(workers) as pool:
                while queue or inflight:
                    stop = (time.time() > deadline or st["paths"] + st["infeasible"] >= max_paths
                            or sum(1 for c in st["cex"] if not c.get("listed")) >= 12
                            or len(st["errors"]) >= 3)
                    if stop:
                        if queue:
                            st["exhausted"] = False
                        queue = []
                    while queue and len(inflight) < workers * 2:
                        inflight.append(pool.apply_async(_pool_job, (queue.pop(),)))
                    done = [r for r in inflight if r.ready()]
                    if not done:
                        time.sleep(0.003)
                        continue
                    for r in done:
                        inflight.remove(r)
                        sub, rest = r.get()
                        _merge_stats(st, sub)
                        # split what a job gives back into a few jobs of their own
                        k = max(1, len(rest) // 4)
                        for i in range(0, len(rest), k):
                            queue.append(rest[i:i + k])
        elif left:
            st["exhausted"] = False
    st["wall_s"] = time.time() - t0
    return st


def replay(harness, model, reset=None):
    """Concrete re-run of the harness on plain Python values. Returns failed requirements."""
    ctx = ConcreteCtx(model)
    if reset:
        reset()
    try:
        harness(ctx)
    except PathInfeasible:
        return None, ctx
    return ctx.failed, ctx
