"""Engine E1: CrossHair driver.  One condition per process, CPU-time capped, output parsed
into confirmed / counterexample / inconclusive.  Harness functions live in ordinary modules
under /verif/props (imported with PYTHONPATH=/verif:/repo) and call the real code of /repo.

Convention: a harness function returns True when the property holds and carries
``post: _`` (plus optional ``pre:`` lines).  A counterexample is the call CrossHair prints;
it is replayed by evaluating that call in a plain interpreter (no tracer, no solver).
"""
from __future__ import annotations

import os
import re
import subprocess
import sys
import time
from concurrent.futures import ThreadPoolExecutor

VENV_PY = "/verif/.venv/bin/python"
REPO = os.environ.get("VERIF_REPO", "/repo")
ENV = dict(os.environ, PYTHONPATH="/verif:" + REPO, PYTHONHASHSEED="0", PYTHONDONTWRITEBYTECODE="1")

_CEX = re.compile(r"error: (.*?) when calling (.*?)(?: \(which returns (.*)\))?$")


def run_condition(module: str, fn: str, timeout: float, extra_args=()):
    """Returns dict(status, call, message, wall_s, raw)."""
    t0 = time.time()
    cmd = [VENV_PY, "-m", "crosshair", "check", "--report_all", "--analysis_kind", "PEP316",
           "--per_condition_timeout", str(timeout), "--per_path_timeout", str(max(5.0, timeout / 4)),
           *extra_args, f"{module}.{fn}"]
    try:
        p = subprocess.run(cmd, env=ENV, cwd="/verif", capture_output=True, text=True,
                           timeout=timeout * 1.5 + 60)
        out = p.stdout + p.stderr
        rc = p.returncode
    except subprocess.TimeoutExpired as e:
        out = (e.stdout or b"").decode("utf8", "replace") if isinstance(e.stdout, bytes) else (e.stdout or "")
        rc = -9
    res = {"module": module, "fn": fn, "wall_s": round(time.time() - t0, 2), "raw": out[-3000:],
           "status": "inconclusive", "call": None, "message": None, "rc": rc}
    for line in out.splitlines():
        m = _CEX.search(line)
        if m:
            res.update(status="cex", message=m.group(1), call=m.group(2))
            return res
    if "Confirmed over all paths" in out:
        res["status"] = "confirmed"
    elif "Unable to meet precondition" in out:
        res["message"] = "unable to meet precondition"
    elif "Not confirmed" in out:
        res["message"] = "not confirmed within the time budget"
    else:
        res["message"] = "no verdict line (rc=%s)" % rc
    return res


def run_conditions(conds, parallel=8):
    """conds: list of (module, fn, timeout). Runs them concurrently, one process each."""
    with ThreadPoolExecutor(max_workers=parallel) as ex:
        return list(ex.map(lambda c: run_condition(*c), conds))


_REPLAY = r"""
import sys, json, importlib
import os
sys.path[:0] = ['/verif', os.environ.get('VERIF_REPO', '/repo')]
mod = importlib.import_module(sys.argv[1])
ns = dict(vars(mod))
try:
    r = eval(sys.argv[2], ns)
    print(json.dumps({"returned": repr(r), "holds": bool(r) is True and r is not None}))
except Exception as e:
    print(json.dumps({"returned": None, "exception": type(e).__name__ + ": " + str(e)[:300], "holds": False}))
"""


def replay_call(module: str, call: str):
    """Evaluate the printed call concretely. Returns dict(holds, returned|exception)."""
    import json
    p = subprocess.run([VENV_PY, "-c", _REPLAY, module, call], env=ENV, cwd="/verif",
                       capture_output=True, text=True, timeout=120)
    try:
        return json.loads(p.stdout.strip().splitlines()[-1])
    except Exception:
        return {"holds": None, "error": (p.stdout + p.stderr)[-500:]}
