"""Trigger catalogue: one minimal file per (rule, language), taken from the violating examples
of each linter's documentation page.  It is concrete input; `validate()` checks at run time
that each entry still triggers the rule it is filed under at the stated line."""
from __future__ import annotations

import os
from pathlib import Path

# name -> (language, rule-id prefix expected, expected line, content)
T: dict[str, tuple[str, str, int, str]] = {}


def _add(name, lang, rule, line, content):
    T[name] = (lang, rule, line, content)


_add("nest.py", "python", "nesting.excessive-depth", 1, """def deep(a, b):
    for i in a:
        if i:
            while b:
                if i > b:
                    with open("f") as fh:
                        b = b - i
    return b
""")
_add("nest.ts", "typescript", "nesting.excessive-depth", 1, """function deep(a: number[], b: number): number {
  for (const i of a) {
    if (i) {
      while (b) {
        if (i > b) {
          b = b - i;
        }
      }
    }
  }
  return b;
}
""")
_add("nest.js", "javascript", "nesting.excessive-depth", 1, """function deep(a, b) {
  for (const i of a) {
    if (i) {
      while (b) {
        if (i > b) {
          b = b - i;
        }
      }
    }
  }
  return b;
}
""")
_add("nest.rs", "rust", "nesting.excessive-depth", 1, """fn deep(a: Vec<i32>, mut b: i32) -> i32 {
    for i in a {
        if i > 0 {
            while b > 0 {
                if i > b {
                    b = b - i;
                }
            }
        }
    }
    b
}
""")
_add("magic.py", "python", "magic-numbers.numeric-literal", 2, """def price(q):
    return q * 3975
""")
_add("magic.ts", "typescript", "magic-numbers.numeric-literal", 2, """function price(q: number): number {
  return q * 3975;
}
""")
_add("magic.js", "javascript", "magic-numbers.numeric-literal", 2, """function price(q) {
  return q * 3975;
}
""")
_add("magic.rs", "rust", "magic-numbers.numeric-literal", 2, """fn price(q: i32) -> i32 {
    q * 3975
}
""")
_SRP_PY = "class Thing:\n" + "".join(f"    def m{i}(self):\n        return {i}\n" for i in range(1, 9))
_add("srp.py", "python", "srp.violation", 1, _SRP_PY)
_SRP_TS = "class Thing {\n" + "".join(f"  m{i}() {{\n    return {i};\n  }}\n" for i in range(1, 9)) + "}\n"
_add("srp.ts", "typescript", "srp.violation", 1, _SRP_TS)
_add("srp.js", "javascript", "srp.violation", 1, _SRP_TS)
_SRP_RS = "struct Thing {\n    x: i32,\n}\nimpl Thing {\n" + "".join(
    f"    pub fn m{i}(&self) -> i32 {{\n        {i}\n    }}\n" for i in range(1, 9)) + "}\n"
_add("srp.rs", "rust", "srp.violation", 1, _SRP_RS)
_add("printy.py", "python", "improper-logging.print-statement", 2, """def show(x):
    print(x)
""")
_add("condverbose.py", "python", "improper-logging.conditional-verbose", 7, """import logging
logger = logging.getLogger(__name__)


def sync(verbose):
    if verbose:
        logger.debug("syncing")
    return 1
""")
_add("printy.ts", "typescript", "improper-logging.print-statement", 2, """function show(x: number): void {
  console.log(x);
}
""")
_add("printy.js", "javascript", "improper-logging.print-statement", 2, """function show(x) {
  console.log(x);
}
""")
_add("unwrap.rs", "rust", "unwrap-abuse", 2, """fn parse(s: &str) -> i32 {
    let v = s.parse::<i32>().unwrap();
    v
}
""")
_add("cloney.rs", "rust", "clone-abuse", 4, """fn dup(items: Vec<String>) -> Vec<String> {
    let mut out = Vec::new();
    for it in items.iter() {
        out.push(it.clone());
    }
    out
}
""")
_add("blocking.rs", "rust", "blocking-async", 2, """async fn load() -> String {
    let s = std::fs::read_to_string("a.txt").unwrap_or_default();
    s
}
""")
_add("stateless.py", "python", "stateless-class.violation", 1, """class Arith:
    def add(self, a, b):
        return a + b

    def sub(self, a, b):
        return a - b
""")
_add("methprop.py", "python", "method-property.should-be-property", 5, """class Person:
    def __init__(self, name):
        self._name = name

    def get_name(self):
        return self._name
""")
_add("pipeline.py", "python", "collection-pipeline.embedded-filter", 3, """def run(items):
    out = []
    for item in items:
        if not item.ok:
            continue
        out.append(item)
    return out
""")
_add("lbyl.py", "python", "lbyl", 2, """def get(d, k):
    if k in d:
        return d[k]
    return None
""")
_add("concat.py", "python", "performance.string-concat-loop", 4, """def join(items):
    s = ""
    for it in items:
        s += it
    return s
""")
_add("regexloop.py", "python", "performance.regex-in-loop", 7, """import re


def find(items):
    out = []
    for it in items:
        if re.match("a+", it):
            out.append(it)
    return out
""")
_add("lazy.py", "python", "lazy-ignores", 1, """import os  # noqa
x = os.getcwd()
""")
_add("cqs.py", "python", "cqs", 1, """def fetch_and_save(db, key):
    value = db.get(key)
    db.save(key, value)
    return value
""")

_DUP = """    total = 0
    for row in rows:
        total += row.amount
        total -= row.discount
        total += row.tax
    result = total / len(rows)
    return result
"""
DUP_FILES = {"dup1.py": "def alpha(rows):\n" + _DUP, "dup2.py": "def beta(rows):\n" + _DUP}
STRINGLY_FILES = {
    "strg1.py": 'def check_env(env):\n    if env in ("staging", "production"):\n        return True\n    return False\n',
    "strg2.py": 'def check_mode(mode):\n    if mode in ("staging", "production"):\n        return 1\n    return 0\n',
}
BASE_CONFIG = "dry:\n  enabled: true\n"


def write_project(root, names=None, config=BASE_CONFIG, cross=True, subdir="src"):
    """Materialise catalogue files under root/subdir; returns list of Paths (sorted)."""
    root = Path(root)
    d = root / subdir if subdir else root
    d.mkdir(parents=True, exist_ok=True)
    (root / ".git").mkdir(exist_ok=True)
    if config is not None:
        (root / ".thailint.yaml").write_text(config)
    out = []
    for n, (_l, _r, _ln, content) in T.items():
        if names is None or n in names:
            (d / n).write_text(content)
            out.append(d / n)
    if cross:
        for n, c in {**DUP_FILES, **STRINGLY_FILES}.items():
            if names is None or n in names:
                (d / n).write_text(c)
                out.append(d / n)
    return sorted(out)
