"""Shared runner: executes a property's obligations on both engines, replays every
counterexample concretely against the real code, matches reproduced counterexamples against
KNOWN_FINDINGS.jsonl, writes evidence and decides the exit code.

Exit codes: 0 all deciding obligations discharged and no unlisted violation; 1 with a
``VIOLATION property=<id> replay=<path>`` line for a reproduced, unlisted counterexample;
2 harness error / inconclusive deciding obligation (never prints VIOLATION).
"""
from __future__ import annotations

import json
import os
import re
import sys
import threading
import time
import traceback
from dataclasses import dataclass, field
from typing import Any, Callable

from . import pathex, xh

VERIF = os.environ.get("VERIF_HOME", "/verif")
# evidence directory (tools/seed_eval.sh redirects it so that trial runs never overwrite committed evidence)
EVDIR = os.environ.get("VERIF_EVIDENCE_DIR", os.path.join(VERIF, "evidence"))
KNOWN_FILE = os.path.join(VERIF, "KNOWN_FINDINGS.jsonl")


@dataclass
class Ob:
    name: str
    engine: str                      # "pathex" | "xh"
    functions: list[str]             # real functions of /repo executed symbolically
    bounds: str                      # stated bounds, what is symbolic / forked / concrete
    deciding: bool = True            # False = hunting obligation (timeout claims nothing)
    # pathex
    harness: Callable | None = None
    reset: Callable | None = None
    timeout: float = 120.0
    workers: int = 8
    max_paths: int = 400000
    must_cover: tuple = ()
    witnesses: int = 0               # path witnesses replayed concretely (plain ints, real code)
    # xh
    module: str | None = None
    fn: str | None = None
    # optional replay through the public entry point: bridge(cex) -> (reproduced, detail)
    bridge: Callable | None = None
    stubs: tuple = ()
    outside: str = ""


def load_known(pid):
    out = []
    if os.path.exists(KNOWN_FILE):
        for line in open(KNOWN_FILE):
            line = line.strip()
            if not line or line.startswith("#") or line.startswith("fixed:"):
                continue
            e = json.loads(line)
            if e.get("property") == pid and e.get("status", "known") == "known":
                out.append(e)
    return out


_SAFE = {"And": pathex.And, "Or": pathex.Or, "Not": pathex.Not, "Implies": pathex.Implies,
         "True": True, "False": False, "abs": abs}


def _facts_match(sig_facts, facts):
    for k, v in (sig_facts or {}).items():
        fv = facts.get(k)
        if isinstance(v, list):
            if fv not in v:
                return False
        elif fv != v:
            return False
    return True


def match_known(known, ob_name, cex):
    """cex: dict(label, model, facts) for pathex; dict(call) for xh."""
    for e in known:
        if e.get("obligation") and not re.fullmatch(e["obligation"], ob_name):
            continue
        if "call_regex" in e:
            if cex.get("call") and re.search(e["call_regex"], cex["call"]):
                return e
            continue
        if cex.get("call") is not None:
            continue
        if e.get("label") and not re.fullmatch(e["label"], cex.get("label", "")):
            continue
        if not _facts_match(e.get("facts"), cex.get("facts", {})):
            continue
        if e.get("cond"):
            try:
                ns = dict(_SAFE)
                ns.update({k: v for k, v in cex.get("facts", {}).items() if isinstance(v, (int, str, bool))})
                ns.update(cex.get("model", {}))
                if not eval(e["cond"], {"__builtins__": {}}, ns):
                    continue
            except Exception:
                continue
        return e
    return None


def make_blocker(known, ob_name):
    """For pathex: after a counterexample that matches a listed finding, returns the
    finding's signature as a symbolic condition so that the solver is asked again for a
    *different* violation on the same path."""
    def blocker(ctx, cex):
        e = match_known(known, ob_name, cex)
        if e is None:
            return None
        if not e.get("cond"):
            return True
        ns = dict(_SAFE)
        ns.update({k: v for k, v in cex.get("facts", {}).items() if isinstance(v, (int, str, bool))})
        for n, v in ctx.vars.items():
            import z3
            ns[n] = pathex.SBool(v) if z3.is_bool(v) else pathex.SInt(v)
        try:
            return eval(e["cond"], {"__builtins__": {}}, ns)
        except Exception:
            return None
    return blocker


class Report:
    def __init__(self, pid, tier, seed):
        self.pid, self.tier, self.seed = pid, tier, seed
        self.t0 = time.time()
        self.violations = []      # reproduced, unlisted
        self.known_hits = {}      # id -> entry
        self.errors = []          # harness errors / inconclusive deciding
        self.ob_results = []
        self.samples = []
        self.states = self.transitions = self.queries = 0
        self.solver_s = 0.0
        self.validated = 0
        self.hunting_not_decided = []
        self.functions = []
        self.stubs = []
        self.bounds = {}
        self.outside = {}
        self.xh_conditions = 0


def _run_pathex(ob: Ob, known, rep: Report):
    blocker = make_blocker(known, ob.name)
    st = pathex.explore(ob.harness, timeout=ob.timeout, max_paths=ob.max_paths,
                        workers=ob.workers, blockers=[blocker], reset=ob.reset,
                        keep_samples=max(4, ob.witnesses))
    res = {"obligation": ob.name, "engine": "pathex", "deciding": ob.deciding,
           "paths": st["paths"], "infeasible_prefixes": st["infeasible"],
           "decisions": st["decisions"], "queries": st["queries"],
           "solver_s": round(st["solver_s"], 3), "concretizations": st["concretizations"],
           "exhausted": st["exhausted"], "wall_s": round(st["wall_s"], 2),
           "assertions_reached": st["required"], "covered": st["covered"],
           "counterexamples": len(st["cex"]), "verdict": None}
    rep.states += st["paths"]
    rep.transitions += st["decisions"]
    rep.queries += st["queries"]
    rep.solver_s += st["solver_s"]
    for s in st["samples"][:2]:
        rep.samples.append({"obligation": ob.name, **s})
    problems = []
    if st["errors"]:
        problems.append("harness error: " + st["errors"][0][-600:])
    if st["unknowns"]:
        problems.append("solver unknown: " + st["unknowns"][0])
    if not st["exhausted"] and not st["cex"]:
        problems.append("work list not exhausted within budget")
    missing = [c for c in ob.must_cover if st["covered"].get(c, 0) == 0]
    if st["exhausted"] and not st["errors"] and missing:
        problems.append("vacuity: behaviour classes never reached: %s" % missing)
    if st["exhausted"] and not st["required"] and not st["errors"]:
        problems.append("vacuity: no assertion reached")
    # counterexamples: replay concretely on the real code, no proxies / no solver
    seen = set()
    per_label: dict[str, int] = {}
    for cex in st["cex"]:
        key = json.dumps([cex["label"], cex["facts"], cex["model"]], sort_keys=True, default=str)
        if key in seen:
            continue
        seen.add(key)
        # replay at most a few counterexamples per violated assertion unless listed findings
        # have to be told apart (then every one is classified)
        if not known and per_label.get(cex["label"], 0) >= int(os.environ.get('VERIF_MAXV', '2')):
            continue
        per_label[cex["label"]] = per_label.get(cex["label"], 0) + 1
        try:
            failed, cctx = pathex.replay(ob.harness, cex["model"], ob.reset)
        except Exception as e:
            failed, cctx = None, None
            problems.append("replay raised %s: %s" % (type(e).__name__, str(e)[:300]))
            continue
        reproduced = bool(failed) and any(f["label"] == cex["label"] for f in failed)
        if not reproduced:
            problems.append("counterexample for %s did not reproduce concretely: %s"
                            % (cex["label"], json.dumps(cex["model"])[:300]))
            continue
        info = next(f for f in failed if f["label"] == cex["label"])
        cex = dict(cex, info=info.get("info", cex.get("info")), facts=info.get("facts", cex["facts"]))
        if ob.bridge is not None:
            try:
                ok, detail = ob.bridge(cex)
            except Exception as e:
                ok, detail = False, "bridge raised %s: %s" % (type(e).__name__, str(e)[:300])
            cex["bridge"] = detail
            if not ok:
                problems.append("counterexample for %s did not reproduce through the public entry point: %s"
                                % (cex["label"], str(detail)[:300]))
                continue
            rep.validated += 1
        e = match_known(known, ob.name, cex)
        if e is not None:
            rep.known_hits.setdefault(e["id"], (e, cex, ob.name))
        else:
            rep.violations.append((ob, cex))
    # witness bridge: one model per sampled path, re-run with plain Python values (no proxies,
    # no stubs that exist only for symbolic runs); must agree with the symbolic verdict
    wit_ok = 0
    if ob.witnesses and not st["cex"]:
        for s in st["samples"][:ob.witnesses]:
            try:
                failed, _c = pathex.replay(ob.harness, s["model"], ob.reset)
            except Exception as e:
                problems.append("witness replay raised %s: %s" % (type(e).__name__, str(e)[:300]))
                continue
            if failed:
                cex = {"label": failed[0]["label"], "model": s["model"], "facts": failed[0]["facts"],
                       "info": failed[0]["info"], "found_by": "concrete witness replay"}
                e = match_known(known, ob.name, cex)
                if e is not None:
                    rep.known_hits.setdefault(e["id"], (e, cex, ob.name))
                else:
                    rep.violations.append((ob, cex))
            elif failed is not None:
                wit_ok += 1
        rep.validated += wit_ok
    res["witness_replays_agreeing"] = wit_ok
    if problems:
        if ob.deciding:
            rep.errors.extend("%s: %s" % (ob.name, p) for p in problems)
            res["verdict"] = "inconclusive"
        else:
            rep.hunting_not_decided.append({"obligation": ob.name, "why": problems})
            res["verdict"] = "not decided"
    else:
        res["verdict"] = "counterexample" if st["cex"] else "holds within bounds"
    res["problems"] = problems
    rep.ob_results.append(res)


def _finish_xh(ob: Ob, r, known, rep: Report):
    res = {"obligation": ob.name, "engine": "crosshair", "deciding": ob.deciding,
           "status": r["status"], "wall_s": r["wall_s"], "call": r["call"], "message": r["message"]}
    rep.xh_conditions += 1
    rep.states += 1
    rep.transitions += 1
    problems = []
    if r["status"] == "cex":
        rr = xh.replay_call(ob.module, r["call"])
        res["replay"] = rr
        if rr.get("holds") is False:
            cex = {"call": r["call"], "message": r["message"], "replay": rr}
            e = match_known(known, ob.name, cex)
            if e is not None:
                rep.known_hits.setdefault(e["id"], (e, cex, ob.name))
                # a listed finding hides the rest of this condition: say so
                res["note"] = "counterexample is a listed finding; CrossHair stops at the first one"
            else:
                rep.violations.append((ob, cex))
            rep.validated += 1
        else:
            problems.append("CrossHair counterexample did not reproduce concretely: %s -> %s"
                            % (r["call"], rr))
    elif r["status"] != "confirmed":
        problems.append("%s (%s)" % (r["message"], r["raw"][-300:].replace("\n", " | ")))
    if problems:
        if ob.deciding:
            rep.errors.extend("%s: %s" % (ob.name, p) for p in problems)
            res["verdict"] = "inconclusive"
        else:
            rep.hunting_not_decided.append({"obligation": ob.name, "why": problems})
            res["verdict"] = "not decided"
    else:
        res["verdict"] = "counterexample" if r["status"] == "cex" else "holds within bounds"
    rep.samples.append({"obligation": ob.name, "condition": "%s.%s" % (ob.module, ob.fn),
                        "status": r["status"], "call": r["call"]})
    rep.ob_results.append(res)


def run_property(pid: str, obs: list[Ob], tier: str, level="model_checking",
                 assumptions=(), xh_parallel=8) -> int:
    seed = int(os.environ.get("VERIF_SEED", "0") or 0)
    rep = Report(pid, tier, seed)
    known = load_known(pid)
    only = os.environ.get("VERIF_ONLY")
    if only:
        obs = [o for o in obs if re.search(only, o.name)]
    xobs = [o for o in obs if o.engine == "xh"]
    pobs = [o for o in obs if o.engine == "pathex"]
    xres: dict[str, Any] = {}

    def _xh_thread():
        rs = xh.run_conditions([(o.module, o.fn, o.timeout) for o in xobs], parallel=xh_parallel)
        for o, r in zip(xobs, rs):
            xres[o.name] = r

    th = None
    if xobs:
        th = threading.Thread(target=_xh_thread)
        th.start()
    for ob in pobs:
        try:
            _run_pathex(ob, known, rep)
        except Exception as e:
            rep.errors.append("%s: runner exception %s" % (ob.name, traceback.format_exc()[-800:]))
    if th:
        th.join()
    for ob in xobs:
        if ob.name in xres:
            _finish_xh(ob, xres[ob.name], known, rep)
        else:
            rep.errors.append("%s: crosshair driver produced no result" % ob.name)
    for ob in obs:
        rep.functions.extend(f for f in ob.functions if f not in rep.functions)
        rep.stubs.extend(s for s in ob.stubs if s not in rep.stubs)
        rep.bounds[ob.name] = ob.bounds
        if ob.outside:
            rep.outside[ob.name] = ob.outside
    return finish(rep, obs, level, assumptions)


def finish(rep: Report, obs, level, assumptions) -> int:
    pid = rep.pid
    os.makedirs(os.path.join(EVDIR, "replays"), exist_ok=True)
    lines = []
    for kid, (e, cex, obname) in sorted(rep.known_hits.items()):
        lines.append("KNOWN-FINDING: property=%s %s %s" % (pid, kid, e.get("what", "")))
    vio_paths = []
    rdir = os.path.join(EVDIR, "replays")
    for fn in os.listdir(rdir):
        if fn.startswith(pid + "-"):
            os.remove(os.path.join(rdir, fn))
    for n, (ob, cex) in enumerate(rep.violations[:int(os.environ.get('VERIF_MAXV', '4'))]):
        path = os.path.join(EVDIR, "replays", "%s-%d.json" % (pid, n))
        with open(path, "w") as f:
            json.dump({"property": pid, "obligation": ob.name, "engine": ob.engine,
                       "module": ob.module, "fn": ob.fn, "counterexample": cex,
                       "replay_cmd": "bin/check %s --replay %s" % (pid, path)}, f, indent=1,
                      default=str)
        vio_paths.append(path)
    deciding = [r for r in rep.ob_results if r["deciding"]]
    discharged = [r for r in deciding if r["verdict"] in ("holds within bounds", "counterexample")]
    if not rep.samples:
        rep.samples.append({"note": "no path completed"})
    ev = {
        "property_id": pid, "tier": rep.tier, "seed": rep.seed, "level": level,
        "wall_s": round(time.time() - rep.t0, 2),
        "violations": len(rep.violations),
        "assumptions": list(assumptions) + ["stub: " + s for s in rep.stubs],
        "coverage": {
            "states": max(rep.states, 0),
            "transitions": max(rep.transitions, 0),
            "traces_validated_against_impl": rep.validated,
            "samples": rep.samples[:12],
            "obligations": len(deciding), "discharged": len(discharged),
            "exhaustive": bool(deciding) and len(discharged) == len(deciding),
            "explanation": "states = symbolic paths explored to completion (pathex) + CrossHair "
                           "conditions; transitions = solver-decided branch decisions; each path's "
                           "assertions are decided by z3 for all values of the remaining symbolic "
                           "variables; traces_validated = counterexamples/witnesses replayed "
                           "concretely against the real code",
        },
        "engine": "pathex (native concolic, z3) + CrossHair",
        "functions_encoded": rep.functions,
        "bounds": rep.bounds,
        "outside_the_claim": rep.outside,
        "solver_queries": rep.queries, "solver_s": round(rep.solver_s, 3),
        "crosshair_conditions": rep.xh_conditions,
        "obligation_results": rep.ob_results,
        "hunting_not_decided": rep.hunting_not_decided,
        "known_findings_rederived": sorted(rep.known_hits),
        "harness_errors": rep.errors,
    }
    if ev["coverage"]["states"] < 1 or ev["coverage"]["transitions"] < 1:
        ev["coverage"]["states"] = max(1, ev["coverage"]["states"])
        ev["coverage"]["transitions"] = max(1, ev["coverage"]["transitions"])
    with open(os.path.join(EVDIR, pid + ".json"), "w") as f:
        json.dump(ev, f, indent=1, default=str)
    for l in lines:
        print(l)
    for r in rep.ob_results:
        print("  [%s] %-40s %s  (%s)" % (r["engine"], r["obligation"], r["verdict"],
              "paths=%s queries=%s %.1fs" % (r.get("paths"), r.get("queries"), r.get("wall_s", 0))
              if r["engine"] == "pathex" else "%s %.1fs" % (r.get("status"), r.get("wall_s", 0))))
    if rep.violations:
        for p in vio_paths:
            print("VIOLATION property=%s replay=%s" % (pid, p))
        return 1
    if rep.errors:
        for e in rep.errors:
            print("INCONCLUSIVE: " + e, file=sys.stderr)
        return 2
    print("OK property=%s tier=%s obligations=%d/%d states=%d queries=%d" % (
        pid, rep.tier, len(discharged), len(deciding), rep.states, rep.queries))
    return 0


def do_replay(pid, path, obs):
    d = json.load(open(path))
    ob = next((o for o in obs if o.name == d["obligation"]), None)
    if ob is None:
        print("unknown obligation", d["obligation"])
        return 2
    if ob.engine == "pathex":
        failed, _ = pathex.replay(ob.harness, d["counterexample"]["model"], ob.reset)
        print(json.dumps({"failed_assertions": failed}, indent=1, default=str))
        return 1 if failed else 0
    rr = xh.replay_call(ob.module, d["counterexample"]["call"])
    print(json.dumps(rr, indent=1))
    return 1 if rr.get("holds") is False else 0
