"""Symbolic node kinds for duck-typed tree-sitter nodes (pathex).

An SKind is a solver integer indexing the COMPLETE node-kind table of a grammar (named and anonymous
kinds, read from the real tree_sitter Language at run time).  `kind == "if_statement"` yields an SBool,
so the implementation's own comparisons split the path once per behaviour class and the final assertion is
decided by z3 for every kind in the class.  Set-valued constant tables of the implementation
(NESTING_NODE_TYPES, _LOOP_NODE_TYPES, ...) are wrapped in a SymSet, whose membership test is the
disjunction over the CURRENT elements of the real constant."""
from __future__ import annotations

import functools

import z3

from .pathex import SBool, SInt, Or


@functools.lru_cache(None)
def kind_table(lang):
    from tree_sitter import Language
    if lang == "typescript":
        import tree_sitter_typescript as m
        l = Language(m.language_typescript())
    else:
        import tree_sitter_rust as m
        l = Language(m.language())
    return tuple(sorted({l.node_kind_for_id(i) for i in range(l.node_kind_count)}))


class SKind:
    def __init__(self, ctx, name, table):
        self.table = table
        self.index = {k: i for i, k in enumerate(table)}
        self.i = ctx.int(name, 0, len(table) - 1)
        self.name = name
        self.concrete = not isinstance(self.i, SInt)

    def _eq(self, other):
        if isinstance(other, SKind):
            return self.i == other.i
        if isinstance(other, str):
            if other not in self.index:
                return False
            return self.i == self.index[other]
        return False

    def __eq__(self, other):  # type: ignore[override]
        return self._eq(other)

    def __ne__(self, other):  # type: ignore[override]
        r = self._eq(other)
        return (~r) if isinstance(r, SBool) else (not r)

    def __hash__(self):
        return hash(self.table[int(self.i)])

    def __str__(self):
        return "<kind %s>" % self.name

    __repr__ = __str__

    def is_one_of(self, names):
        """Symbolic (or concrete) membership in a collection of kind names."""
        terms = [self._eq(n) for n in sorted(names) if n in self.index]
        if not terms:
            return False
        return Or(*terms)

    def value(self):
        return self.table[int(self.i)]


class SymSet:
    """Wraps a real set/frozenset constant of the implementation."""

    def __init__(self, original):
        self.original = original

    def __contains__(self, x):
        if isinstance(x, SKind):
            return x.is_one_of(self.original)
        return x in self.original

    def __iter__(self):
        return iter(self.original)

    def __len__(self):
        return len(self.original)


class symbolic_tables:
    """Context manager: every set/frozenset-of-str attribute of the given classes / modules is replaced by a
    SymSet for the duration (so tables added by a later change to the implementation are covered too)."""

    def __init__(self, *owners):
        self.owners = owners
        self.saved = []

    def __enter__(self):
        for o in self.owners:
            for name, val in list(vars(o).items()):
                if isinstance(val, (set, frozenset)) and val and all(isinstance(x, str) for x in val):
                    self.saved.append((o, name, val))
                    setattr(o, name, SymSet(val))
        return self

    def __exit__(self, *a):
        for o, name, val in self.saved:
            setattr(o, name, val)
        return False
