"""Thin helpers around the real thai-lint code in /repo (imported from the working tree)."""
from __future__ import annotations

import re
import sys
from pathlib import Path

import os

REPO = os.environ.get("VERIF_REPO", "/repo")
if REPO not in sys.path:
    sys.path.insert(0, REPO)

from src.orchestrator.core import FileLintContext  # noqa: E402

EXT = {"python": ".py", "typescript": ".ts", "javascript": ".js", "rust": ".rs"}


def mkctx(lang, content, metadata=None, name="sample", path=None):
    p = Path(path) if path else Path("/proj/src/" + name + EXT.get(lang, ".txt"))
    return FileLintContext(p, lang, content=content, metadata=metadata or {})


def vtuple(v):
    return (v.rule_id, v.line, v.column, v.message)


def ints_in(text):
    return [int(x) for x in re.findall(r"-?\d+", text)]
