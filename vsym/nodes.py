"""Duck-typed tree-sitter nodes (type, children, parent, prev_sibling, start_point, end_point, text).
Positions may be symbolic (pathex SInt); shapes mirror what the real grammars produce for the
construct concerned (validated by the parser-in-the-loop obligations of the same property)."""
from __future__ import annotations


class Duck:
    def __init__(self, type, text="", children=(), start=(0, 0), end=None):
        self.type = type
        self._text = text
        self.children = list(children)
        self.start_point = start
        self.end_point = end if end is not None else start
        self.parent = None
        self.prev_sibling = None
        self.next_sibling = None
        self.is_named = True
        prev = None
        for c in self.children:
            c.parent = self
            c.prev_sibling = prev
            if prev is not None:
                prev.next_sibling = c
            prev = c

    @property
    def text(self):
        return self._text.encode() if isinstance(self._text, str) else self._text

    @property
    def child_count(self):
        return len(self.children)

    # grammar field names of the shapes used in the harnesses (node type -> field -> child kinds)
    _FIELDS = {
        "field_expression": {"value": None, "field": ("field_identifier",)},
        "call_expression": {"function": ("field_expression", "identifier", "scoped_identifier"), "arguments": ("arguments",)},
    }

    def child_by_field_name(self, name):
        # `self.type == ...` also works for symbolic kinds (the comparison forks the path)
        if name == "field" and self.type == "field_expression":
            return self.children[-1] if len(self.children) > 1 else None      # positional: value . field
        if name == "value" and self.type == "field_expression":
            return self.children[0] if self.children else None
        if name == "function" and self.type == "call_expression":
            for c in self.children:
                if c.type == "field_expression" or c.type == "identifier" or c.type == "scoped_identifier":
                    return c
        return None
