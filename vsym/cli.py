from __future__ import annotations

import argparse
import importlib
import os
import sys

from . import runner


def main():
    ap = argparse.ArgumentParser()
    ap.add_argument("pid")
    ap.add_argument("--tier", default=os.environ.get("VERIF_TIER") or "quick",
                    choices=["quick", "thorough"])
    ap.add_argument("--replay")
    a = ap.parse_args()
    os.chdir(os.environ.get("VERIF_HOME", "/verif"))      # VERIF_HOME: a development copy of this directory
    try:
        from loguru import logger
        logger.remove()
    except Exception:
        pass
    import logging
    logging.disable(logging.CRITICAL)
    # every scratch project / temp file of this run (also of pool workers and subprocesses) lives under
    # one directory that is removed when the run ends
    import tempfile
    scratch = tempfile.mkdtemp(prefix="verif-%s-" % a.pid)
    tempfile.tempdir = scratch
    os.environ["TMPDIR"] = scratch
    try:
        mod = importlib.import_module("props." + a.pid)
        obs = mod.obligations(a.tier)
    except Exception:
        import traceback
        traceback.print_exc()
        print("INCONCLUSIVE: cannot build harnesses for %s" % a.pid, file=sys.stderr)
        sys.exit(2)
    if a.replay:
        sys.exit(runner.do_replay(a.pid, a.replay, obs))
    rc = 2
    try:
        rc = runner.run_property(a.pid, obs, a.tier, assumptions=getattr(mod, "ASSUMPTIONS", ()))
    finally:
        import shutil
        shutil.rmtree(scratch, True)
    sys.exit(rc)


if __name__ == "__main__":
    main()
