"""Rule-id universe and the documented command -> linter mapping (oracle side).

The universe is collected at run time from the current /repo: ids of the registered rule
objects plus every ``<registered-prefix>.<name>`` string literal found in src/linters."""
from __future__ import annotations

import functools
import os
import re

# documented mapping (docs/cli-reference.md and the per-linter pages): CLI command ->
# prefix of the rule ids that belong to that linter
CMD_PREFIX = {
    "nesting": "nesting.", "srp": "srp.", "dry": "dry.", "magic-numbers": "magic-numbers.",
    "file-placement": "file-placement", "pipeline": "collection-pipeline.",
    "file-header": "file-header.", "improper-logging": "improper-logging.",
    "print-statements": "improper-logging.", "method-property": "method-property.",
    "stateless-class": "stateless-class.", "lazy-ignores": "lazy-ignores", "lbyl": "lbyl",
    "stringly-typed": "stringly-typed.", "perf": "performance.",
    "string-concat-loop": "performance.string-concat-loop",
    "regex-in-loop": "performance.regex-in-loop", "unwrap-abuse": "unwrap-abuse",
    "clone-abuse": "clone-abuse", "blocking-async": "blocking-async",
}
NON_LINTER_COMMANDS = {"config", "hello", "init-config"}


def owns(cmd: str, rule_id: str) -> bool:
    p = CMD_PREFIX[cmd]
    if p.endswith("."):
        return rule_id.startswith(p)
    return rule_id == p or rule_id.startswith(p + ".")


@functools.lru_cache(None)
def registry_ids():
    from src.core.registry import RuleRegistry
    r = RuleRegistry()
    r.discover_rules("src.linters")
    return tuple(sorted(x.rule_id for x in r.list_all()))


@functools.lru_cache(None)
def rule_id_universe():
    ids = set(registry_ids())
    prefixes = {i.split(".")[0] for i in ids}
    pat = re.compile(r"[\"']([a-z][a-z\-]+\.[a-z][a-z\-]+)[\"']")
    for root, _d, files in os.walk(os.path.join(os.environ.get("VERIF_REPO", "/repo"), "src/linters")):
        for f in files:
            if f.endswith(".py"):
                for m in pat.finditer(open(os.path.join(root, f), encoding="utf8").read()):
                    if m.group(1).split(".")[0] in prefixes:
                        ids.add(m.group(1))
    return tuple(sorted(ids))


def linter_commands():
    from src.cli_main import cli
    return tuple(sorted(c for c in cli.commands if c not in NON_LINTER_COMMANDS))
