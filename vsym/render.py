"""Control-structure skeleton -> source text in Python / TypeScript / JavaScript / Rust.

A skeleton is a chain of construct names from the outermost to the innermost; the innermost
body holds the deepest statement.  Each construct is ONE documented nesting construct (an
if/elif/else chain is one construct wherever the deepest statement sits in it)."""
from __future__ import annotations

# construct -> (opening lines, closing lines); the body is indented one unit below the last
# opening line.  `extra` = additional indent units of the body relative to the opening.
PY = {
    "if": (["if c:"], []),
    "if-else": (["if c:"], ["else:", "    x = 0"]),
    "else-deep": (["if c:", "    x = 0", "else:"], []),
    "else-first": (["if c:", "    x = 0", "else:"], []),
    "elif": (["if c:", "    x = 0", "elif d:"], ["else:", "    x = 1"]),
    "elif-else-deep": (["if c:", "    x = 0", "elif d:", "    x = 1", "else:"], []),
    "elif-else-first": (["if c:", "    x = 0", "elif d:", "    x = 1", "else:"], []),
    "for": (["for i in xs:"], []),
    "while": (["while c:"], []),
    "with": (["with m:"], []),
    "async-with": (["async with m:"], []),
    "try": (["try:"], ["except E:", "    x = 0"]),
    "except-deep": (["try:", "    x = 0", "except E:"], []),
    "finally-deep": (["try:", "    x = 0", "finally:"], []),
    "match": (["match v:", "    case 1:"], ["    case _:", "        x = 0"]),
    # a `for` / `try` by the documentation's wording, other node classes in the ast
    "async-for": (["async for i in xs:"], []),
    "try-star": (["try:"], ["except* E:", "    x = 0"]),
    "except-star-deep": (["try:", "    x = 0", "except* E:"], []),
}
TS = {
    "if": (["if (c) {"], ["}"]),
    "if-else": (["if (c) {"], ["} else {", "  x = 0;", "}"]),
    "else-deep": (["if (c) {", "  x = 0;", "} else {"], ["}"]),
    "else-first": (["if (c) {", "  x = 0;", "} else {"], ["}"]),
    "elif": (["if (c) {", "  x = 0;", "} else if (d) {"], ["} else {", "  x = 1;", "}"]),
    "elif-else-deep": (["if (c) {", "  x = 0;", "} else if (d) {", "  x = 1;", "} else {"], ["}"]),
    "elif-else-first": (["if (c) {", "  x = 0;", "} else if (d) {", "  x = 1;", "} else {"], ["}"]),
    "for": (["for (let i = 0; i < n; i++) {"], ["}"]),
    "for-of": (["for (const i of xs) {"], ["}"]),
    "for-in": (["for (const k in o) {"], ["}"]),
    "while": (["while (c) {"], ["}"]),
    "do-while": (["do {"], ["} while (c);"]),
    "try": (["try {"], ["} catch (e) {", "  x = 0;", "}"]),
    "except-deep": (["try {", "  x = 0;", "} catch (e) {"], ["}"]),
    "finally-deep": (["try {", "  x = 0;", "} finally {"], ["}"]),
    "switch": (["switch (v) {", "  case 1:"], ["    break;", "  default:", "    x = 0;", "}"]),
}
RS = {
    "if": (["if c {"], ["}"]),
    "if-else": (["if c {"], ["} else {", "    x = 0;", "}"]),
    "else-deep": (["if c {", "    x = 0;", "} else {"], ["}"]),
    "else-first": (["if c {", "    x = 0;", "} else {"], ["}"]),
    "elif": (["if c {", "    x = 0;", "} else if d {"], ["} else {", "    x = 1;", "}"]),
    "elif-else-deep": (["if c {", "    x = 0;", "} else if d {", "    x = 1;", "} else {"], ["}"]),
    "elif-else-first": (["if c {", "    x = 0;", "} else if d {", "    x = 1;", "} else {"], ["}"]),
    "for": (["for i in 0..n {"], ["}"]),
    "while": (["while c {"], ["}"]),
    "loop": (["loop {"], ["    break;", "}"]),
    "match": (["match v {", "    1 => {"], ["    }", "    _ => {}", "}"]),
    "closure": (["let f = |a: i32| {"], ["};"]),
    "async-block": (["let fut = async {"], ["};"]),
}
TABLE = {"python": PY, "typescript": TS, "javascript": TS, "rust": RS}
UNIT = {"python": 4, "typescript": 2, "javascript": 2, "rust": 4}
EXTRA = {("typescript", "switch"): 1, ("javascript", "switch"): 1, ("rust", "match"): 1, ("python", "match"): 1}
COMMON = ("if", "if-else", "else-deep", "elif", "for", "while")


def constructs(lang):
    return tuple(TABLE[lang])


def body_lines(lang, chain, sibling=False):
    """Lines of a function body (relative indent 0) for the given chain."""
    u = UNIT[lang]
    semi = "" if lang == "python" else ";"
    out = ["x = 0" + semi] if lang != "rust" else ["let mut x = 0;"]
    if sibling:   # a depth-1 sibling construct before the chain: must not change the maximum
        o, c = TABLE[lang]["if"]
        out += o + [" " * u + "x = 5" + semi] + c

    def rec(i, ind):
        if i == len(chain):
            return [" " * ind + "x = x + 1" + semi]
        o, c = TABLE[lang][chain[i]]
        extra = EXTRA.get((lang, chain[i]), 0)
        lines = [" " * ind + l for l in o]
        if chain[i] in ("else-deep", "elif-else-deep"):
            # a statement of its own inside the else block: `else:` + a lone `if` IS an elif chain
            lines.append(" " * (ind + u) + "x = 2" + semi)
        lines += rec(i + 1, ind + u * (1 + extra))
        if chain[i] in ("else-first", "elif-else-first"):
            # the nested construct comes first in the else block, followed by another statement
            lines.append(" " * (ind + u) + "x = 2" + semi)
        lines += [" " * ind + l for l in c]
        return lines
    out += rec(0, 0)
    if lang == "rust":
        out.append("let _ = x;")
    return out


def function(lang, name, kind, chain, sibling=False):
    """Returns (lines, header_index) — header_index is the 0-based index of the line holding the
    def/function/fn header of the function named `name`."""
    u = UNIT[lang]
    body = body_lines(lang, chain, sibling)
    ind = lambda ls, k: [(" " * (u * k) + l) if l else l for l in ls]
    if lang == "python":
        if kind == "function":
            return [f"def {name}(c, d, xs, m, v=0):"] + ind(body, 1), 0
        if kind == "async":
            return [f"async def {name}(c, d, xs, m):"] + ind(body, 1), 0
        if kind == "method":
            return [f"class K{name}:", "    y = 1", "", f"    def {name}(self, c, d, xs, m):"] + ind(body, 2), 3
        if kind == "decorated":
            return ["@deco", f"def {name}(c, d, xs, m):"] + ind(body, 1), 1
    elif lang in ("typescript", "javascript"):
        ts = lang == "typescript"
        params = "c: boolean, d: boolean, xs: number[], n: number, v: number, o: any" if ts else "c, d, xs, n, v, o"
        if kind == "function":
            return [f"function {name}({params}) {{"] + ind(body, 1) + ["}"], 0
        if kind == "async":
            return [f"async function {name}({params}) {{"] + ind(body, 1) + ["}"], 0
        if kind == "method":
            return [f"class K{name} {{", f"  {name}({params}) {{"] + ind(body, 2) + ["  }", "}"], 1
        if kind == "arrow":
            return [f"const {name} = ({params}) => {{"] + ind(body, 1) + ["};"], 0
        if kind == "function-expression":
            return [f"const {name} = function ({params}) {{"] + ind(body, 1) + ["};"], 0
        if kind == "generator":
            return [f"function* {name}({params}) {{"] + ind(body, 1) + ["}"], 0
        if kind == "with-jsx":      # a component: the nesting constructs are followed by a JSX return with a braced callback
            i_decl = "(i: any)" if ts else "(i)"
            return [f"function {name}({params}) {{"] + ind(body, 1) + [" " * u + f"return <ul>{{xs.map({i_decl} => {{ return <li>{{i}}</li>; }})}}</ul>;", "}"], 0
        # functions that sit inside the expression body of an arrow function (curried chain / callback)
        if kind == "curried-arrow":
            return [f"const {name} = (store{': any' if ts else ''}) => (next{': any' if ts else ''}) => ({params}) => {{"] + ind(body, 1) + ["};"], 0
        if kind == "callback-in-expression-arrow":
            return [f"const {name} = ({params}) => xs.forEach(function (item{': any' if ts else ''}) {{"] + ind(body, 1) + ["});"], 0
    else:
        params = "c: bool, d: bool, n: i32, v: i32"
        if kind == "function":
            return [f"fn {name}({params}) {{"] + ind(body, 1) + ["}"], 0
        if kind == "async":
            return [f"async fn {name}({params}) {{"] + ind(body, 1) + ["}"], 0
        if kind == "method":
            return [f"struct K{name};", f"impl K{name} {{", f"    fn {name}(&self, {params}) {{"] + ind(body, 2) + ["    }", "}"], 2
    raise ValueError((lang, kind))


def kinds(lang):
    return {"python": ("function", "async", "method", "decorated"),
            "typescript": ("function", "async", "method", "arrow", "function-expression", "generator", "curried-arrow", "callback-in-expression-arrow", "with-jsx"),
            "javascript": ("function", "async", "method", "arrow", "function-expression", "generator", "curried-arrow", "callback-in-expression-arrow", "with-jsx"),
            "rust": ("function", "async", "method")}[lang]
