#!/usr/bin/env python3
"""Regenerates DESIGN.md sections 0.6 (repaired defects) and 0.7 (known findings) from KNOWN_FINDINGS.jsonl."""
import collections
import json
import re

fixed = collections.defaultdict(list)
for l in open('/verif/KNOWN_FINDINGS.jsonl'):
    m = re.match(r"fixed: property=(C\d+) (\w+) (.*)", l.strip())
    if m:
        fixed[m.group(1)].append((m.group(2), m.group(3)))
n = sum(len(v) for v in fixed.values())
out = ["### 0.6 Defects found on the pinned tree and repaired (`fix:` commits in /repo, pinned suite passes)\n",
       "%d defects of the unchanged tree were reproduced by a check and repaired, each by one small unguarded `fix:` commit after which\n"
       "the pinned suite (2116 stable tests, unedited) still passes. The authoritative list with the failing input of each is the\n"
       "`fixed:` lines of KNOWN_FINDINGS.jsonl (commit ids included); a fixed entry suppresses nothing. Many of them were first\n"
       "pointed out by seeding sub-agents as 'already broken on HEAD' observations and then reproduced by widening a generator. By property\n"
       "(short form, newest last):\n" % n]
for pid in sorted(fixed):
    items = []
    for _c, t in fixed[pid]:
        t = re.sub(r"; (pointed out|reproduced|first recorded).*$", "", t)
        t = t.split(": ")[0] if len(t) > 170 else t
        items.append(t[:170])
    out.append("* **%s** (%d): " % (pid, len(items)) + " | ".join(items))
known = [json.loads(l) for l in open('/verif/KNOWN_FINDINGS.jsonl') if l.startswith('{')]
ids = collections.OrderedDict()
for k in known:
    ids.setdefault(k['id'], k)
out.append("\n### 0.7 Known findings recorded, not repaired\n")
out.append("Each is printed as `KNOWN-FINDING: property=<id> ...` by the check that exhibits it and matched by obligation, assertion label, path\n"
           "facts and a condition, so that a different violation of the same property is still reported. (The earlier entry\n"
           "C09-test-marker-in-parent-path hid a third-round seed while it was one coarse entry; it was first split per linter and file type\n"
           "and then repaired in /repo with one shared helper, so it is now a `fixed:` line.)\n")
for i, k in ids.items():
    out.append("* **%s** (%s) - %s" % (i, k['property'], k['what']))
p = '/verif/DESIGN.md'
s = open(p).read()
a = s.index("### 0.6 Defects found")
b = s.index("### 0.8 Independently seeded")
open(p, 'w').write(s[:a] + "\n".join(out) + "\n\n" + s[b:])
print(n, list(ids))
