#!/usr/bin/env python3
"""Self-tests of the engine (run with /verif/.venv/bin/python tools/selftest.py):
a planted off-by-one must be reported and replayed; its fixed twin must be exhausted with no counterexample;
a non-deterministic harness must be flagged as a harness error; unbounded concretisation must not be reported as success."""
import random
import sys

sys.path.insert(0, "/verif")
from vsym import pathex
from vsym.pathex import Eq


def flagged_buggy(depth, limit):
    return depth >= limit


def flagged_ok(depth, limit):
    return depth > limit


def mk(f):
    def h(ctx):
        d, l = ctx.int("depth", 0, 6), ctx.int("limit")
        ctx.require("iff", Eq(bool(f(d, l)), d > l))
    return h


def h_nondet(ctx):
    x = ctx.int("x", 0, 3)
    if random.random() < 0.5:
        bool(x > 1)
    bool(x > 2)
    ctx.require("t", True)
    ctx.choice("c", 3)


def h_unbounded(ctx):
    n = ctx.int("n", 0)
    for _ in range(n):
        pass
    ctx.require("t", True)


ok = True
st = pathex.explore(mk(flagged_buggy))
cex = st["cex"]
failed, _ = pathex.replay(mk(flagged_buggy), cex[0]["model"]) if cex else (None, None)
print("planted off-by-one:", "reported" if cex else "MISSED", cex[0]["model"] if cex else "", "replay:", bool(failed))
ok &= bool(cex) and bool(failed)
st = pathex.explore(mk(flagged_ok))
print("fixed twin: paths=%d exhausted=%s cex=%d" % (st["paths"], st["exhausted"], len(st["cex"])))
ok &= st["exhausted"] and not st["cex"]
random.seed(7)
st = pathex.explore(h_nondet, max_paths=200)
print("non-deterministic harness: errors=%d" % len(st["errors"]))
ok &= len(st["errors"]) > 0
st = pathex.explore(h_unbounded, max_paths=50, timeout=10)
print("unbounded concretisation: exhausted=%s (must be False)" % st["exhausted"])
ok &= not st["exhausted"]
print("SELFTEST", "OK" if ok else "FAILED")
sys.exit(0 if ok else 1)
