#!/bin/bash
# usage: tools/seed_eval.sh <seed-dir-name> <PID> ; applies the seed to /repo, runs the quick check, reverts.
n=$1; pid=$2
cd /repo || exit 9
if [ -n "$(git status --porcelain)" ]; then echo "/repo dirty, abort"; exit 9; fi
git apply /verif/seeded/$n/patch.diff || { echo "PATCH DOES NOT APPLY"; exit 3; }
cd /verif && timeout 1500 bin/check $pid --tier ${TIER:-quick} 2>&1 | grep -v "^  \[" | cut -c1-160 | tail -${LINES_MAX:-4}
git -C /repo checkout -- . ; git -C /repo status --porcelain
