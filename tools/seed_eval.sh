#!/bin/bash
# usage: tools/seed_eval.sh <seed-dir-name> <PID>
# Applies the seed to a scratch worktree of /repo's HEAD and runs the check against that tree
# (VERIF_REPO), with evidence redirected to a scratch directory; /repo itself is never touched.
# BASE=<rev> uses another revision of /repo than HEAD as the base.
# INPLACE=1 applies the patch to /repo's working tree instead (git apply / git checkout -- .).
n=$1; pid=$2
if [ -n "$INPLACE" ]; then
  cd /repo || exit 9
  if [ -n "$(git status --porcelain)" ]; then echo "/repo dirty, abort"; exit 9; fi
  git apply /verif/seeded/$n/patch.diff || { echo "PATCH DOES NOT APPLY"; exit 3; }
  cd /verif && timeout 1500 bin/check $pid --tier ${TIER:-quick} 2>&1 | grep -v "^  \[" | cut -c1-160 | tail -${LINES_MAX:-4}
  git -C /repo checkout -- . ; git -C /repo status --porcelain
  exit 0
fi
wt=$(mktemp -d /tmp/seedeval.XXXXXX); ev=$(mktemp -d /tmp/seedev.XXXXXX)
git -C /repo worktree add --detach -q $wt ${BASE:-HEAD} || exit 9
( cd $wt && git apply /verif/seeded/$n/patch.diff ) || { echo "PATCH DOES NOT APPLY"; git -C /repo worktree remove --force $wt; rm -rf $ev; exit 3; }
cd /verif && VERIF_REPO=$wt VERIF_EVIDENCE_DIR=$ev timeout 1500 bin/check $pid --tier ${TIER:-quick} 2>&1 | grep -v "^  \[" | cut -c1-160 | sed "s#$ev#<scratch-evidence>#" | tail -${LINES_MAX:-4}
git -C /repo worktree remove --force $wt; rm -rf $ev $wt
