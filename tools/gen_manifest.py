#!/usr/bin/env python3
"""Regenerates /verif/MANIFEST.json from the table below (kept valid at every commit)."""
import json, os, sys
sys.path.insert(0, "/verif")
from tools.manifest_table import CHECKS, NOT_APPLICABLE

BASE = json.load(open("/root/.vp/BASELINE.json"))["cmd"].replace(" --junitxml=<file>", "") if os.path.exists("/root/.vp/BASELINE.json") else \
    "cd /repo && /venv/bin/python -m pytest -ra -q -p no:cacheprovider --timeout=900 --continue-on-collection-errors"

m = {
    "version": 1,
    "setup_cmd": "/verif/bin/ensure_env",
    "hooks": {
        "guard": "THAILINT_VERIF",
        "enable": "no hooks: both engines observe the real code from outside (module-global substitution inside the harness process); the guard is unused",
        "baseline_off_cmd": BASE,
        "source_commits": [],
        "add_only": True,
    },
    "engines": [
        {"name": "pathex", "path": "vsym/pathex.py", "serves_properties": sorted(c["property_id"] for c in CHECKS),
         "kind_free_text": "native concolic path exploration of the real Python code with z3: proxy ints/bools, fork at __bool__, per-path assertion decided by the solver for all values of the remaining symbolic variables; counterexamples replayed concretely"},
        {"name": "crosshair", "path": "vsym/xh.py", "serves_properties": sorted(c["property_id"] for c in CHECKS if c.get("uses_xh")),
         "kind_free_text": "CrossHair 0.0.110 (symbolic execution with z3) on leaf kernels with symbolic str/int inputs, one condition per process"},
    ],
    "checks": [],
    "not_applicable": NOT_APPLICABLE,
    "notes": "Technique family: solver-based checking of the real code. See DESIGN.md. Exit 2 = inconclusive/harness error (never a VIOLATION line).",
}
for c in CHECKS:
    pid = c["property_id"]
    m["checks"].append({
        "property_id": pid,
        "quick_cmd": f"bin/check {pid} --tier quick",
        "thorough_cmd": f"bin/check {pid} --tier thorough",
        "evidence_file": f"/verif/evidence/{pid}.json",
        "replay_cmd_template": f"bin/check {pid} --replay {{path}}",
        "engine": c.get("engine", "pathex"),
        "level_claimed": {"category": "model_checking", "text": c["text"], "design_ref": c["design_ref"]},
        "level_note": c["note"],
        "technique": c["technique"],
    })
json.dump(m, open("/verif/MANIFEST.json", "w"), indent=1)
try:
    import jsonschema
    jsonschema.validate(m, json.load(open("/root/.vp/MANIFEST.schema.json")))
    print("MANIFEST valid:", len(m["checks"]), "checks,", len(NOT_APPLICABLE), "not applicable")
except ImportError:
    print("written (jsonschema not available)")
