#!/bin/bash
# Runs the pinned suite on /repo's working tree and compares with BASELINE.json stable_pass.
cd /repo && /venv/bin/python -m pytest -ra -q -p no:cacheprovider --timeout=900 --continue-on-collection-errors --junitxml=/tmp/bl.junit.xml >/tmp/bl.log 2>&1
python3 - <<'PY'
import json, xml.etree.ElementTree as ET
b=set(json.load(open('/root/.vp/BASELINE.json'))['stable_pass'])
t=ET.parse('/tmp/bl.junit.xml')
ok=set()
for tc in t.iter('testcase'):
    if not any(c.tag in ('failure','error','skipped') for c in tc):
        ok.add(tc.get('classname')+'::'+tc.get('name'))
missing=sorted(b-ok)
print("stable_pass:",len(b),"passing now:",len(ok),"missing from passing:",len(missing))
for m in missing[:20]: print("  MISSING",m)
PY
tail -2 /tmp/bl.log
