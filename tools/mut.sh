#!/bin/bash
# usage: tools/mut.sh <PID> <file-relative-to-/repo> <python-regex> <replacement>   (one substitution, count=1)
# applies a mutation to /repo, runs the quick check, ALWAYS reverts.
pid=$1; f=$2; pat=$3; rep=$4
cd /repo || exit 9
if [ -n "$(git status --porcelain)" ]; then echo "/repo dirty, abort"; exit 9; fi
python3 - "$f" "$pat" "$rep" <<'PY'
import re,sys
f,pat,rep=sys.argv[1:4]
s=open(f).read()
n=re.subn(pat,rep,s,count=1,flags=re.S)
if n[1]!=1: print("PATTERN NOT FOUND"); sys.exit(3)
open(f,'w').write(n[0])
PY
rc=$?
if [ $rc -eq 0 ]; then
  git --no-pager diff | grep '^[+-][^+-]' | head -6
  cd /verif && VERIF_ONLY=$VERIF_ONLY timeout 1200 bin/check $pid --tier ${TIER:-quick} 2>&1 | grep -v "^  \[" | cut -c1-220 | head -${LINES_MAX:-8}
  echo "rc=${PIPESTATUS[0]}"
fi
git -C /repo checkout -- . ; git -C /repo status --porcelain
