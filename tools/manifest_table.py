TECH = "bounded symbolic execution of the real Python functions (pathex: native concolic engine over z3; CrossHair for string kernels); per-path assertions decided by the SMT solver, counterexamples replayed on the real code"

CHECKS = [
    {"property_id": "C16", "design_ref": "DESIGN.md §4 C16",
     "text": "Bounded symbolic model checking: the real SRPRule.check (parsers in the loop) runs on generated classes/structs while max_methods, max_loc, per-language overrides and check_keywords are solver variables; every path's iff-assertion is decided by z3 for all integer thresholds, so boundary exactness (a class sitting on a limit) is decided, not sampled. Class shapes are forked over a stated finite set.",
     "note": "Trusted: z3, the proxy-int engine (counterexamples are replayed with plain ints before being reported), the generator's own count of public methods / documented LOC. Class shapes outside the stated set are outside the claim.",
     "technique": TECH},
    {"property_id": "C06", "design_ref": "DESIGN.md §4 C06",
     "text": "Bounded symbolic model checking of the real formatters (JSON, SARIF, text) on up to 3 violations whose line/column are unbounded solver integers: 1-based SARIF positions, total = count, rule declarations and cross-format agreement are decided by z3 on every path; every linter command's exit code / own-rule filter is explored for all commands x formats x (own, foreign) violation counts and 7 usage-error classes.",
     "note": "Trusted: z3, proxy ints (witnesses are replayed with plain ints through the real json encoder), click's CliRunner, the documented command->rule-id table. json.dumps is a recorder only while ints are symbolic. Surrogate/UTF-8 byte-level claims are not covered (C codec).",
     "technique": TECH},
    {"property_id": "C07", "design_ref": "DESIGN.md §4 C07",
     "text": "Bounded symbolic model checking of the real Orchestrator.lint_files_parallel / execute_linting_on_paths against the sequential run on a real multi-language project with all rules (sqlite-backed cross-file rules included): max_workers / cpu_count are solver integers in [1,16] (the 2 x workers fallback threshold is decided symbolically), file counts and completion orders of the futures are forked; full Violation records and exit status are compared; Violation.to_dict/from_dict round trip with unbounded symbolic ints.",
     "note": "Trusted: z3, proxy ints, the in-process executor stub (isolation of work items), scripted as_completed. OS scheduling of real worker processes is replaced by the permutation stub. Known finding C07-parallel-loses-cross-file is listed in KNOWN_FINDINGS.jsonl.",
     "technique": TECH},
    {"property_id": "C01", "design_ref": "DESIGN.md §4 C01",
     "text": "Bounded symbolic model checking of the real NestingDepthRule.check with the parsers in the loop: control-structure skeletons (chains of the documented constructs of each language, all function kinds, sibling constructs, second functions) are rendered into Python/TS/JS/Rust while max_nesting_depth and the per-language override are unbounded solver integers, so for each skeleton z3 decides the verdict for every limit (flip at exactly one value), the depth in the message and the header line, against the documented depth 1 + enclosing constructs.",
     "note": "Trusted: z3, proxy ints (counterexamples replayed with plain ints), the renderer and the documented-depth oracle. Skeleton shapes beyond the stated chains, Python match/case, JSX/macros are outside the claim. Known finding C01-python-depth-one-less listed; two defects repaired by fix: commits.",
     "technique": TECH},
    {"property_id": "C02", "design_ref": "DESIGN.md §4 C02",
     "text": "Bounded symbolic model checking of the real MagicNumberRule.check with the parsers in the loop: programs with 1-2 numeric literals (int/float/hex/binary/underscore/suffixed/BigInt spellings) placed in every documented flagged and exempt context of each language, booleans/strings/identifiers with digits alongside, allowed_numbers membership forked and max_small_integer an unbounded solver integer; the iff-verdict, exactly-once, line and named value are decided on every path.",
     "note": "Trusted: z3, proxy ints, the spelling table's reference values and the context table's exempt classification (written from the documentation). Four defects repaired by fix: commits (bool literals, Rust hex f32, TS hex-with-e, BigInt).",
     "technique": TECH},
    {"property_id": "C05", "design_ref": "DESIGN.md §4 C05",
     "text": "Bounded symbolic model checking of configuration handling: for every documented linter section (18) in both key spellings the real key normalisation + Orchestrator + rule run on its trigger file with `enabled` a solver boolean (false => silent, true => default findings); thresholds a <= b as solver integers for monotonicity and rejection of non-positive values; command-line threshold overrides against file values and per-language sections with all values unbounded solver integers; carriers (.thailint.yaml/.json/pyproject) and their discovery order, top-level ignore list and malformed carriers explored by forking through library and CLI.",
     "note": "Trusted: z3, proxy ints/bools, the documented section names and trigger catalogue. The YAML/JSON/TOML parsers are outside the solver's reach: carriers are explored concretely (forked), not symbolically. `--config FILE` carriers are covered for error handling only (C06). Nine defects repaired by fix: commits.",
     "technique": TECH},
    {"property_id": "C03", "design_ref": "DESIGN.md §4 C03",
     "text": "Bounded symbolic model checking of the whole DRY pipeline (tokeniser, rolling windows, sqlite storage, de-overlap, min_occurrences, message builder) on generated 1-4 file Python/TS/JS projects with planted duplicate runs: min_occurrences is an unbounded solver integer (the report/silence verdict is decided for all values), window size, run length, multiplicity, offsets, indentation, interleaved comments/blank lines and periodic (self-overlapping) runs are forked; soundness (named locations hold identical normalised code), mutuality, completeness and the occurrence count are asserted on every path.",
     "note": "Trusted: z3, proxy ints, the statement pool (unique fillers), the independent normaliser of the oracle. Hash collisions assumed away. Block filters / duplicate-constants sub-feature outside the claim.",
     "technique": TECH},
    {"property_id": "C04", "design_ref": "DESIGN.md §4 C04",
     "text": "Bounded symbolic model checking of suppression handling: rule-name matching for every rule id x spelling kind x letter-case mask x entry point; directive scope arithmetic of the real IgnoreDirectiveParser with the violation line a solver integer (same-line / next-line / block / file forms, both comment styles, both tool words, naming own or another rule); and every linter's trigger file through the real Orchestrator with each directive form inserted (named rule suppressed exactly, other-rule and out-of-scope directives change nothing).",
     "note": "Trusted: z3, proxy ints, the documented scope table, the trigger catalogue. Directives inside string literals / block comments and per-linter ignore path patterns are outside the claim (repository ignore lists are covered in C05/C14). Five defects repaired by fix: commits.",
     "technique": TECH},
    {"property_id": "C18", "design_ref": "DESIGN.md §4 C18",
     "text": "Bounded model checking of the real FilePlacementLinter on rule sets explored by the solver-managed choice tree: paths x rule-set shapes (no rules, 1-2 directory rules incl. nested / trailing-slash / root keys, global_deny, global_patterns, combinations) x deny/allow list shapes over a regex table x config wrapping x absolute/relative target, against the decision table of the statement (most specific covering directory rule, deny before allow, globals only for uncovered files); invalid regexes in every position must be rejected.",
     "note": "Nothing stays symbolic here (string matching through re): the exploration is exhaustive over the stated finite space, managed by the engine's decision tree. Trusted: Python re, the path/pattern tables. Equally specific covering keys are excluded (unspecified). Two defects repaired by fix: commits.",
     "technique": TECH},
]

DONE = {int(c['property_id'][1:]) for c in CHECKS} | {19}
_PENDING = "check not built yet in this round (work in progress; see DESIGN.md Appendix B build order)"
NOT_APPLICABLE = [
    {"property_id": "C19", "reason": "quantifies over programs fed to C parsers (documented examples x embeddings); nothing of the implementation's own logic is left to make symbolic, so solver-based checking does not apply (DESIGN.md §5)"},
] + [{"property_id": "C%02d" % i, "reason": _PENDING} for i in range(1, 21) if i not in DONE]
