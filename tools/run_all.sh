#!/bin/bash
# runs every registered check (quick by default) sequentially; prints rc and wall time per property
tier=${1:-quick}
cd /verif
for pid in $(python3 -c "import json;print(' '.join(c['property_id'] for c in json.load(open('MANIFEST.json'))['checks']))"); do
  s=$(date +%s)
  out=$(bin/check $pid --tier $tier 2>&1); rc=$?
  e=$(date +%s)
  echo "$pid rc=$rc $((e-s))s $(echo "$out" | grep -c '^KNOWN-FINDING') known | $(echo "$out" | grep 'VIOLATION\|INCONCLUSIVE' | head -2 | cut -c1-160)"
done
