#!/bin/bash
# usage: tools/confirm_seed.sh <worktree> ; confirms: demo fails with patch / passes without; suite passes with patch
wt=$1
cd $wt || exit 9
echo "== diff stat"; git diff --stat -- src | tail -3
echo "== demo WITH change"; PYTHONPATH=$wt timeout 600 /venv/bin/python demo.py >/tmp/demo_with.$$ 2>&1; echo "exit=$?"; tail -3 /tmp/demo_with.$$
git diff -- src > /tmp/seedpatch.$$.diff; git checkout -- src
echo "== demo WITHOUT change"; PYTHONPATH=$wt timeout 600 /venv/bin/python demo.py >/tmp/demo_wo.$$ 2>&1; echo "exit=$?"; tail -2 /tmp/demo_wo.$$
git apply /tmp/seedpatch.$$.diff; rm -f /tmp/seedpatch.$$.diff
echo "== suite WITH change"
PYTHONPATH=$wt /venv/bin/python -m pytest -q -p no:cacheprovider --no-cov --timeout=900 --junitxml=/tmp/seed.$$.xml >/tmp/seed.$$.log 2>&1
python3 - /tmp/seed.$$.xml <<'PY'
import json, sys, xml.etree.ElementTree as ET
b=set(json.load(open('/root/.vp/BASELINE.json'))['stable_pass'])
ok=set()
for tc in ET.parse(sys.argv[1]).iter('testcase'):
    if not any(c.tag in ('failure','error','skipped') for c in tc):
        ok.add(tc.get('classname')+'::'+tc.get('name'))
m=sorted(b-ok)
print("stable_pass missing:",len(m), m[:5])
PY
rm -f /tmp/seed.$$.xml /tmp/seed.$$.log /tmp/demo_with.$$ /tmp/demo_wo.$$
