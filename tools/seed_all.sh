#!/bin/bash
# usage: tools/seed_all.sh [parallelism]   -- evaluates every kept seed against its property's quick check
# (scratch worktrees, scratch evidence); prints one line per seed: CAUGHT / MISSED / other.
cd /verif
ls -d seeded/*/ | xargs -n1 basename | xargs -P ${1:-4} -I{} bash -c '
  pid=$(python3 -c "import json;print(json.load(open(\"/verif/seeded/{}/meta.json\"))[\"property\"])")
  out=$(LINES_MAX=400 tools/seed_eval.sh {} $pid 2>&1)
  if echo "$out" | grep -q "^VIOLATION property=$pid"; then echo "CAUGHT {} ($pid)";
  elif echo "$out" | grep -q "^OK property"; then echo "MISSED {} ($pid)";
  else echo "OTHER  {} ($pid): $(echo "$out" | tail -1)"; fi'
