"""C09 — results do not depend on how paths are spelled or where the project lives."""
from __future__ import annotations

import os
import re
import shutil
import tempfile
from collections import Counter
from pathlib import Path

from vsym import triggers
from vsym.pathex import And, Eq, Implies, Not, Or
from vsym.runner import Ob

FILES = ("magic.py", "magic.ts", "magic.rs", "nest.py", "printy.js", "unwrap.rs", "cloney.rs", "blocking.rs", "srp.ts",
         "dup1.py", "dup2.py", "strg1.py", "strg2.py", "lbyl.py", "methprop.py", "stateless.py")


def parent_vocab():
    """Parent-directory names: every built-in excluded directory name, every test marker the linters look
    for in paths, their perturbations, and neutral names.  Derived from the implementation's tables."""
    import src.orchestrator.core as core
    names = sorted(d for d in core._HARDCODED_EXCLUDE_DIRS if "*" not in d)
    markers = ["tests", "test", "test_data", "examples", "benches", "spec", "my_test.d", "x.test.y", "x.spec.y", "pkg.egg-info",
               "migrations", "legacy"]
    return ["work"] + names + markers


MARKERS = {"tests", "test", "test_data", "examples", "benches", "spec", "my_test.d", "x.test.y", "x.spec.y", "migrations", "legacy"}


def _is_marker(name):
    """Names that the linters' own test/ignore heuristics look for as path substrings."""
    return "test" in name or "spec" in name or name in MARKERS


def _key(v, root):
    p = Path(v.file_path)
    rootr = Path(root).resolve()
    rel = None
    # a relative path in a violation may be relative to the cwd or (file-placement) to the project
    for cand in ([p] if p.is_absolute() else [Path.cwd() / p, rootr / p]):
        try:
            if cand.exists():
                rel = str(cand.resolve().relative_to(rootr))
                break
        except ValueError:
            continue
    if rel is None:
        rel = "OUTSIDE:" + v.file_path
    msg = re.sub(r"[^\s,:()]*?((?:app/|top_level)[\w.]+)", r"\1", v.message.replace("app/../", ""))     # paths quoted in messages, whatever their spelling
    return (v.rule_id, rel, v.line, msg[:80])


def _build(base, parents, name="proj"):
    d = Path(base)
    for p in parents:
        d = d / p
    d = d / name
    d.mkdir(parents=True)
    triggers.write_project(d, names=set(FILES), subdir="app")
    # a source file directly in the project directory (the walk root), next to the sub-directory
    (d / "top_level.py").write_text(triggers.T["magic.py"][3].replace("3975", "4409"))
    # a duplicated block that is suppressed by inline directives in one of its two files
    blk = "    total = compute_total(order, region)\n    audit_log.append(order.identifier)\n    discount = lookup_discount(customer, total)\n    invoice = build_invoice(total, discount)\n"
    (d / "app" / "billing_a.py").write_text("def bill_a(order, customer, region, audit_log):\n    # thailint: ignore-start dry\n" + blk + "    # thailint: ignore-end\n    return invoice\n")
    (d / "app" / "billing_b.py").write_text("def bill_b(order, customer, region, audit_log):\n" + blk + "    return invoice\n")
    # ignore rules that are written relative to the project: a repository-level list and a per-linter list
    (d / ".thailintignore").write_text("app/skipped_magic.py\ntop_skipped.py\n")
    (d / "app" / "skipped_magic.py").write_text(triggers.T["magic.py"][3].replace("3975", "5501"))
    (d / "app" / "cqs_skipped.py").write_text(triggers.T["cqs.py"][3])
    (d / "app" / "cqs_kept.py").write_text(triggers.T["cqs.py"][3].replace("fetch_and_save", "fetch_and_keep"))
    (d / "top_skipped.py").write_text(triggers.T["magic.py"][3].replace("3975", "5503"))
    (d / "app" / "half_skipped.py").write_text(triggers.T["magic.py"][3].replace("3975", "5507").replace("price", "rate") + "\n\n" + triggers.T["nest.py"][3])
    with open(d / ".thailint.yaml", "a") as fh:
        fh.write("magic-numbers:\n  ignore:\n    - app/half_skipped.py\n    - tests/\n")
        # per-linter ignore lists naming a directory the project does not have (but a parent directory may be called so)
        for sec in ("srp", "print-statements", "stateless-class", "method-property", "collection-pipeline", "nesting", "lbyl", "unwrap-abuse"):
            fh.write("%s:\n  ignore:\n    - tests/\n    - build/\n" % sec)
        # ... and the CQS linter's own list (ignore_patterns, fnmatch)
        fh.write("cqs:\n  enabled: true\n  ignore_patterns:\n    - app/cqs_skipped.py\n    - 'tests/*'\n")
        # placement rules are written relative to the project as well
        fh.write("file-placement:\n  directories:\n    app:\n      deny:\n        - pattern: '.*\\.rs$'\n          reason: no rust sources in app\n"
                 "  global_deny:\n    - pattern: '^top_.*\\.py$'\n      reason: no top-level modules\n")
    return d


_BASE = {}


def _baseline():
    if "v" not in _BASE:
        import src.linter_config.ignore as ign
        from src.api import Linter
        tmp = tempfile.mkdtemp(prefix="c09b-")
        try:
            d = _build(tmp, ["work"])
            ign.clear_ignore_parser_cache()
            vs = Linter(project_root=d).lint(d)
            _BASE["v"] = Counter(_key(v, d) for v in vs)
        finally:
            shutil.rmtree(tmp, True)
            ign.clear_ignore_parser_cache()
    return _BASE["v"]


def make_h(tier):
    quick = tier == "quick"

    def h(ctx):
        import src.linter_config.ignore as ign
        from src.api import Linter
        vocab = parent_vocab()
        if quick:
            vocab = [n for n in vocab if n in ("work", "build", "dist", "venv", "node_modules", ".git", "tests", "test", "test_data", "examples", "x.test.y")]
        p1 = ctx.pick("parent", vocab)
        p2 = ctx.pick("grandparent", ("none", "build", "tests") if quick else ("none", "build", "tests", "dist", "test_data"))
        pname = ctx.pick("project_dir_name", ("proj", "dist", "build", "node_modules", "my.egg-info")) if p2 == "none" else "proj"
        spelling = ctx.pick("spelling", ("absolute", "dot-from-inside", "relative-from-parent", "absolute-other-cwd", "file-list-absolute",
                                         "dotdot-from-excluded-subdir", "dotdot-from-plain-subdir", "absolute-from-cwd-with-own-ignore-file",
                                         "absolute-through-dotdot"))
        base = _baseline()
        tmp = tempfile.mkdtemp(prefix="c09-")
        cwd0 = os.getcwd()
        try:
            d = _build(tmp, ([p2] if p2 != "none" else []) + [p1], pname)
            ign.clear_ignore_parser_cache()
            if spelling == "absolute":
                vs = Linter(project_root=d).lint(d)
            elif spelling == "dot-from-inside":
                os.chdir(d)
                vs = Linter().lint(".")
            elif spelling == "relative-from-parent":
                os.chdir(d.parent)
                vs = Linter(project_root=pname).lint(pname)
            elif spelling == "absolute-other-cwd":
                os.chdir("/")
                vs = Linter(project_root=d).lint(str(d))
            elif spelling == "absolute-from-cwd-with-own-ignore-file":
                # an unrelated working directory that carries its own ignore list and configuration
                other = Path(tmp) / "elsewhere"
                other.mkdir()
                (other / ".thailintignore").write_text("*.py\n*.ts\n*.js\n*.rs\napp/\ntop_level.py\n")
                (other / ".thailint.yaml").write_text("nesting:\n  enabled: false\nmagic-numbers:\n  enabled: false\n")
                os.chdir(other)
                vs = Linter(project_root=d).lint(str(d))
            elif spelling == "absolute-through-dotdot":
                vs = Linter(project_root=d).lint(str(d / "app" / ".." / "app")) + Linter(project_root=d).lint(str(d / "app" / ".." / "top_level.py")) \
                    + Linter(project_root=d).lint(str(d / "app" / ".." / "top_skipped.py"))
            elif spelling.startswith("dotdot"):
                sub = d / ("build" if "excluded" in spelling else "docs")
                sub.mkdir()
                os.chdir(sub)
                vs = Linter(project_root=d).lint("../app") + Linter(project_root=d).lint("../top_level.py")
            else:
                from src.orchestrator.core import Orchestrator
                vs = Orchestrator(project_root=d).lint_files(sorted((d / "app").iterdir()) + [d / "top_level.py"])
            got = Counter(_key(v, d) for v in vs)
        finally:
            os.chdir(cwd0)
            shutil.rmtree(tmp, True)
            ign.clear_ignore_parser_cache()
        ctx.note("parent", p1)
        markers = sorted(n for n in ([p1] + ([p2] if p2 != "none" else [])) if _is_marker(n))
        ctx.note("marker_parents", markers)
        ctx.note("has_marker_parent", bool(markers))
        linters = sorted({k[0].split(".")[0] for k in base} | {k[0].split(".")[0] for k in got})
        all_same = True
        for lint in linters:
            b = Counter({k: c for k, c in base.items() if k[0].split(".")[0] == lint})
            g = Counter({k: c for k, c in got.items() if k[0].split(".")[0] == lint})
            missing, extra = b - g, g - b
            all_same = all_same and not missing and not extra
            ctx.note("n_extra_is_zero", not extra)
            ctx.note("missing_exts", ",".join(sorted({os.path.splitext(k[1])[1] for k in missing})))
            ctx.require("location-independent:" + lint, not missing and not extra,
                        missing=[list(k)[:3] for k in list(missing)[:3]], extra=[list(k)[:3] for k in list(extra)[:3]],
                        n_missing=sum(missing.values()), n_extra=sum(extra.values()))
        ctx.cover("same" if all_same else "different")
    return h


ASSUMPTIONS = (
    "the reference result is the same project under a neutral parent directory, linted by absolute path through the library API",
    "violations are compared up to the spelling of the file path (paths are made relative to the project directory)",
    "symlinks and Windows separators are outside the claim",
)


def obligations(tier):
    return [
        Ob(name="K2-same-project-under-every-parent-name", engine="pathex", harness=make_h(tier),
           functions=["Linter.__init__/lint", "Orchestrator.lint_directory/lint_files/lint_file", "_is_hardcoded_excluded", "IgnoreDirectiveParser.is_ignored",
                      "every rule's path-based exemptions (test-file detection, default ignore lists, is_ignored_path, DRY ignore_patterns)"],
           bounds="forked (real trees, nothing symbolic): parent directory name from the vocabulary derived from _HARDCODED_EXCLUDE_DIRS plus the test/ignore markers used by the linters; "
                  "optional grandparent; 9 target spellings / working directories (one of them an unrelated directory with its own .thailintignore and .thailint.yaml)",
           timeout=900 if tier == "quick" else 3000, workers=14, must_cover=("same",)),
    ]
