"""C10 — directory, file-list, CLI and library runs agree with one another."""
from __future__ import annotations

import atexit
import json
import os
import shutil
import sys
import tempfile
from collections import Counter
from pathlib import Path

from vsym import catalogue, triggers
from vsym.pathex import And, Eq, Implies, Not, Or
from vsym.runner import Ob

CROSS = ("dry.", "stringly-typed.")
FILES = ("magic.py", "nest.ts", "printy.js", "unwrap.rs", "srp.py", "dup1.py", "dup2.py", "strg1.py", "strg2.py", "lbyl.py")
_P = {}


def _proj():
    if _P.get("pid") != os.getpid():
        _P["pid"] = os.getpid()
        d = tempfile.mkdtemp(prefix="c10proj-")
        atexit.register(shutil.rmtree, d, True)
        # per-language overrides: a cache keyed too coarsely (per run instead of per language) would make a
        # mixed-language run differ from the union of single-file runs
        cfg = (triggers.BASE_CONFIG + "nesting:\n  max_nesting_depth: 4\n  typescript:\n    max_nesting_depth: 2\n  rust:\n    max_nesting_depth: 9\n"
               "srp:\n  max_methods: 7\n  python:\n    max_methods: 3\n  rust:\n    max_methods: 20\n"
               "magic-numbers:\n  max_small_integer: 10\n  typescript:\n    allowed_numbers: [3975]\n")
        # the project's own configuration excuses one file; an explicitly given configuration file stands in for it as a whole
        _P["cfg_without_ignore"] = cfg
        cfg += "ignore:\n  - 'src/legacy_excused.py'\n"
        triggers.write_project(d, names=set(FILES) | {"nest.py", "nest.rs", "srp.rs", "magic.ts"}, config=cfg)
        (Path(d) / "src" / "legacy_excused.py").write_text(triggers.T["magic.py"][3].replace("3975", "4813"))
        (Path(d) / "src" / "sub").mkdir()
        (Path(d) / "src" / "sub" / "deep.py").write_text(triggers.T["magic.py"][3].replace("3975", "4801"))
        # a pair of files whose findings would differ if analyzer state leaked from file to file
        (Path(d) / "src" / "aliasmod.py").write_text("import re as rx\n\n\nWORD = rx.compile('a+')\n\n\ndef words(text):\n    return WORD.findall(text)\n")
        (Path(d) / "src" / "sub" / "rows.py").write_text("def scan(rows):\n    out = []\n    for rx in rows:\n        out.append(rx.split(','))\n    return out\n")
        # an unparsable file: linters report their own *.syntax-error ids through every entry point alike
        (Path(d) / "src" / "broken.py").write_text("class Broken:\n    def run(self):\n        return (1 +\n\ndef oops(:\n    pass\n")
        (Path(d) / "src" / "broken.ts").write_text("function broken( {\n  if (x {\n    return 3975;\n")
        # a TypeScript file in a tests/ directory of the project: exempt from magic-numbers however the target is spelled
        (Path(d) / "tests").mkdir()
        (Path(d) / "tests" / "calc.ts").write_text("export function f(x: number): number {\n  return x * 3600;\n}\n")
        body = triggers.DUP_FILES["dup1.py"].split("\n", 1)[1].replace("total", "amount")
        (Path(d) / "src" / "selfdup.py").write_text("def one(rows):\n" + body + "\n\ndef two(rows):\n" + body)
        # files without a recognised extension: a licence text, a Python script recognised by its first line, notes
        (Path(d) / "src" / "LICENSE").write_text("Permission is hereby granted, free of charge, to any person obtaining a copy.\n")
        (Path(d) / "src" / "notes.txt").write_text("remember 3975 things\n")
        (Path(d) / "src" / "sub" / "report").write_text("#!/usr/bin/env python3\n" + triggers.T["magic.py"][3].replace("3975", "4907")
                                                         + "\n\ndef shout(x):\n    print(x)\n")
        (Path(d) / "src" / "sub" / "setup").write_text("#!/bin/sh\necho 3975\n")
        # sources below an always-excluded directory name: excluded however they are reached (also when the target lies inside)
        (Path(d) / "src" / "build" / "gen").mkdir(parents=True)
        (Path(d) / "src" / "build" / "gen" / "made.py").write_text(triggers.T["magic.py"][3].replace("3975", "4999"))
        (Path(d) / "src" / "build" / "gen" / "made2.py").write_text(triggers.T["nest.py"][3])
        _P["d"] = Path(d)
    return _P["d"]


_FRESH_CODE = ("import sys, json, os\nfrom pathlib import Path\nfrom src.orchestrator.core import Orchestrator\n"
               "d = Path(sys.argv[1])\nvs = Orchestrator(project_root=d).lint_file(d / sys.argv[2])\n"
               "print(json.dumps([[v.rule_id, os.path.relpath(str(v.file_path), str(d)), v.line, v.column, v.message.replace(str(d), '<root>')] for v in vs]))\n")
_FRESH = {}


def _fresh_reference(d, files):
    """What `lint one file` reports in a process that has linted nothing else (a user's single-file run), per file,
    keyed by project-relative path; computed once per check run and shared between the pool's workers."""
    import subprocess
    from concurrent.futures import ThreadPoolExecutor
    if _FRESH.get("pid") == os.getpid():
        return _FRESH["ref"]
    cache = Path(tempfile.gettempdir()) / ("c10-fresh-%d.json" % os.getppid())
    ref = None
    if cache.exists():
        try:
            ref = json.loads(cache.read_text())
        except ValueError:
            ref = None
    if ref is None:
        env = dict(os.environ, PYTHONPATH=os.environ.get("VERIF_REPO", "/repo"))

        def one(rel):
            out = subprocess.run([sys.executable, "-c", _FRESH_CODE, str(d), rel], capture_output=True, text=True, env=env, timeout=120)
            return rel, json.loads(out.stdout)
        with ThreadPoolExecutor(6) as ex:
            ref = dict(ex.map(one, [os.path.relpath(str(f), str(d)) for f in files]))
        tmp = cache.with_suffix(".%d.tmp" % os.getpid())
        tmp.write_text(json.dumps(ref))
        os.replace(tmp, cache)
        atexit.register(lambda: cache.unlink(missing_ok=True))
    _FRESH.update(pid=os.getpid(), ref=ref)
    return ref


def _k(v):
    return (v.rule_id, v.file_path, v.line, v.column, v.message)


def _per_file(vs):
    return Counter(_k(v) for v in vs if not v.rule_id.startswith(CROSS))


_TIER = {"t": "quick"}


def h_union(ctx):
    import src.linter_config.ignore as ign
    from src.orchestrator.core import Orchestrator
    d = _proj()
    allf = sorted(p for p in (d / "src").rglob("*") if p.is_file())
    kind = ctx.pick("run", ("file-list", "directory", "directory-non-recursive", "directory-below-an-excluded-name"))
    ign.clear_ignore_parser_cache()
    if kind == "file-list":
        # membership bits for 8 of the files; the remaining ones are always in the list
        free = {"magic.py", "dup1.py", "dup2.py", "aliasmod.py", "rows.py", "unwrap.rs", "nest.ts", "selfdup.py"}
        if _TIER["t"] != "quick":
            free |= {"printy.js", "srp.py", "strg1.py", "strg2.py"}
        chosen = [f for f in allf if (f.name not in free) or ctx.flag("in_" + f.name)]
        got = _per_file(Orchestrator(project_root=d).lint_files(chosen))
    elif kind == "directory-below-an-excluded-name":
        chosen = [f for f in allf if "build" in f.relative_to(d).parts]
        got = _per_file(Orchestrator(project_root=d).lint_directory(d / "src" / "build" / "gen"))
    elif kind == "directory":
        chosen = allf
        got = _per_file(Orchestrator(project_root=d).lint_directory(d / "src"))
    else:
        chosen = [f for f in allf if f.parent == d / "src"]
        got = _per_file(Orchestrator(project_root=d).lint_directory(d / "src", recursive=False))
    want = Counter()
    for f in chosen:
        ign.clear_ignore_parser_cache()
        want += _per_file(Orchestrator(project_root=d).lint_file(f))
    ctx.cover("nonempty" if chosen else "empty")
    ctx.require("run-equals-union-of-single-file-runs", got == want, n_files=len(chosen),
                only_in_run=[list(k)[:3] for k in list(got - want)[:4]], only_single=[list(k)[:3] for k in list(want - got)[:4]])
    # ... and the union of single-file runs made in processes of their own (state kept per PROCESS cannot hide there)
    ref = _fresh_reference(d, allf)
    fresh = Counter()
    for f in chosen:
        for rid, rel, line, col, msg in ref[os.path.relpath(str(f), str(d))]:
            if not rid.startswith(CROSS):
                fresh[(rid, rel, line, col, msg.replace(str(d), "<root>"))] += 1
    got_rel = Counter()
    for (rid, path, line, col, msg), c in got.items():
        got_rel[(rid, os.path.relpath(str(path), str(d)), line, col, msg.replace(str(d), "<root>"))] += c
    ctx.require("run-equals-union-of-single-file-runs-in-fresh-processes", got_rel == fresh, n_files=len(chosen),
                only_in_run=[list(k)[:3] for k in list(got_rel - fresh)[:4]], only_single=[list(k)[:3] for k in list(fresh - got_rel)[:4]])


def h_cli_vs_api(ctx):
    import src.linter_config.ignore as ign
    from click.testing import CliRunner
    from src.api import Linter
    from src.cli_main import cli
    d = _proj()
    cmd = ctx.pick("command", tuple(c for c in catalogue.linter_commands() if c != "file-placement"))
    target = ctx.pick("target", ("directory", "file:dup1.py", "file:selfdup.py", "file:magic.py", "file:unwrap.rs", "file:nest.ts", "file:broken.py", "file:broken.ts", "subdir", "relative:tests/calc.ts", "relative:src/magic.ts", "excluded-subdir"))
    t = {"directory": d / "src", "subdir": d / "src" / "sub", "excluded-subdir": d / "src" / "build" / "gen"}.get(target) or (d / target.split(":")[1] if target.startswith("relative:") else d / "src" / target.split(":")[1])
    cli_target, cwd0 = str(t), os.getcwd()
    if target.startswith("relative:"):      # the command line gets the path relative to the project directory (cwd), the library the absolute one
        cli_target = target.split(":")[1]
        os.chdir(d)
    # the configuration may also be handed over explicitly: `--config FILE` / Linter(config_file=FILE)
    explicit = ctx.pick("explicit_config", ("none", "with-ignore-list", "with-ignore-list-and-a-root-ignore-file"))
    cfg_args, cfg_kw = [], {}
    root_ignore = d / ".thailintignore"
    if explicit == "with-ignore-list-and-a-root-ignore-file":
        root_ignore.write_text("src/aliasmod.py\nsrc/nest.ts\n")      # the project's own repository-level list, next to the explicit file's
    if explicit != "none":
        cf = d / ("explicit-%d.yaml" % os.getpid())      # per process: pool workers share nothing they write
        cf.write_text(_P["cfg_without_ignore"] + "\nignore:\n  - 'src/magic.py'\n  - 'src/sub/'\n  - '*.rs'\n")
        cfg_args, cfg_kw = ["--config", str(cf)], {"config_file": cf}
    ign.clear_ignore_parser_cache()
    try:
        r = CliRunner().invoke(cli, [cmd, "--format", "json"] + cfg_args + [cli_target])
    finally:
        os.chdir(cwd0)
    ctx.require("cli-run-completes", r.exit_code in (0, 1), code=r.exit_code, out=r.output[-200:])
    if r.exit_code not in (0, 1):
        if root_ignore.exists():
            root_ignore.unlink()
        return
    doc = json.loads(r.output)
    cli_v = Counter((v["rule_id"], v["file_path"] if os.path.isabs(v["file_path"]) else str(d / v["file_path"]), v["line"], v["column"], v["message"])
                    for v in doc["violations"])
    ign.clear_ignore_parser_cache()
    api_all = Linter(project_root=d, **cfg_kw).lint(t)
    own_ids = sorted({v.rule_id for v in api_all if catalogue.owns(cmd, v.rule_id)})
    api_v = Counter(_k(v) for v in api_all if catalogue.owns(cmd, v.rule_id))
    # the documented way to select rules in the library: rules=[ids]
    ign.clear_ignore_parser_cache()
    api_sel = Counter(_k(v) for v in Linter(project_root=d, **cfg_kw).lint(t, rules=own_ids)) if own_ids else Counter()
    ctx.cover("findings" if cli_v else "no-findings")
    ctx.require("cli-equals-library", cli_v == api_v, command=cmd, target=target,
                only_cli=[list(k)[:3] for k in list(cli_v - api_v)[:4]], only_api=[list(k)[:3] for k in list(api_v - cli_v)[:4]])
    if root_ignore.exists():
        root_ignore.unlink()
    ctx.require("rules-argument-selects-the-same", api_sel == api_v, command=cmd, target=target)
    ctx.require("exit-code-matches", r.exit_code == (1 if cli_v else 0))


ASSUMPTIONS = (
    "rules that judge files one at a time = every rule except the cross-file ones (dry.*, stringly-typed.*), which are left out of the union comparison and kept in the CLI-vs-library comparison",
    "command -> rule-id ownership is the documented mapping (vsym/catalogue.py)",
)


def obligations(tier):
    _TIER["t"] = tier
    return [
        Ob(name="K1-directory-and-file-list-equal-union", engine="pathex", harness=h_union,
           functions=["Orchestrator.lint_files/lint_directory/lint_file", "_collect_files_fast", "every per-file rule's check()"],
           bounds="forked: every subset of 8 (thorough: 12) of the %d project files as an explicit list, the rest always included (membership bits are solver booleans enumerated by forking), the directory, the directory non-recursively" % (len(FILES) + 1),
           timeout=900, workers=14, must_cover=("nonempty",)),
        Ob(name="K1b-cli-equals-library", engine="pathex", harness=h_cli_vs_api,
           functions=["every linter command (in-process CLI)", "Linter.lint/_lint_path/_filter_violations", "each command's _run_*_lint filter"],
           bounds="forked: every linter command except file-placement x 6 targets (directory, sub-directory, 4 single files incl. one half of a cross-file duplicate)",
           timeout=900, workers=14, must_cover=("findings", "no-findings")),
    ]
