"""C08 — results depend only on current file contents and config, not on order or history."""
from __future__ import annotations

import itertools
import os
import shutil
import tempfile
from collections import Counter
from pathlib import Path

from vsym import triggers
from vsym.pathex import And, Eq, Implies, Not, Or
from vsym.runner import Ob

FILES = {
    "dup1.py": triggers.DUP_FILES["dup1.py"],
    "dup2.py": triggers.DUP_FILES["dup2.py"],
    "strg1.py": triggers.STRINGLY_FILES["strg1.py"],
    "strg2.py": triggers.STRINGLY_FILES["strg2.py"],
    "magic.py": triggers.T["magic.py"][3],
    "textutil.py": "import re as rx\n\n\nWORD = rx.compile('a+')\n\n\ndef words(text):\n    return WORD.findall(text)\n",
    # extension-less scripts: their language is decided by content (shebang), not by the path
    "deploy": "#!/bin/sh\n# wrapper around the python tooling\necho deploying\n",
    "runner": "#!/usr/bin/env python3\ndef price(q):\n    print(q)\n    return q * 4801\n",
    # findings suppressed by an inline directive; the edit removes the directive (and the other way round for bare.py)
    "strg3.py": "def check_stage(stage):\n    if stage in (\"staging\", \"production\"):  # thailint: ignore[stringly-typed]\n        return 2\n    return 3\n",
    "hushed.py": "def fee(q):\n    return q * 6113  # thailint: ignore[magic-numbers]\n",
    "bare.py": "def toll(q):\n    return q * 7219\n",
    # a non-transitive star of similar constant names (hub first / last matters to a union-find) in three files
    "const_a.py": "API_TIMEOUT = 30\n",
    "const_b.py": "TIMEOUT_API = 30\n",
    "const_c.py": "API_TIMEOUTS = 30\n",
    # one function called with a small set of string values from four places: the message lists the other call sites
    "call_a.py": "from svc import set_mode\n\n\ndef start_a():\n    set_mode(\"fast\")\n",
    "call_b.py": "from svc import set_mode\n\n\ndef start_b():\n    set_mode(\"slow\")\n",
    "call_c.py": "from svc import set_mode\n\n\ndef start_c():\n    set_mode(\"fast\")\n",
    "call_d.py": "from svc import set_mode\n\n\ndef start_d():\n    set_mode(\"slow\")\n",
    "scanner.py": "import regex as rx\n\n\ndef scan(items):\n    out = []\n    for it in items:\n        if rx.search('a+', it):\n            out.append(it)\n    return out\n",
}
VARIANTS = {
    "dup2.py": "def beta(rows):\n    return [row.amount for row in rows]\n",
    "strg2.py": "def check_mode(mode):\n    return mode is not None\n",
    "magic.py": "def price(q):\n    return q\n",
    "scanner.py": "def scan(items):\n    return list(items)\n",
    "strg3.py": "def check_stage(stage):\n    if stage in (\"staging\", \"production\"):\n        return 2\n    return 3\n",
    "hushed.py": "def fee(q):\n    return q * 6113\n",
    "bare.py": "def toll(q):\n    return q * 7219  # thailint: ignore[magic-numbers]\n",
    "deploy": "#!/usr/bin/env python3\ndef cost(q):\n    print(q)\n    return q * 5903\n",
    "runner": "#!/bin/sh\necho running\n",
}
ADDED = {"dup3.py": triggers.DUP_FILES["dup1.py"].replace("alpha", "gamma")}
ORDER = list(FILES)


def _key(v, root):
    msg = v.message.replace(str(root) + os.sep, "")
    return (v.rule_id, str(Path(v.file_path).relative_to(root)) if str(v.file_path).startswith(str(root)) else v.file_path, v.line, v.column, msg)


def _mk(storage_mode):
    d = Path(tempfile.mkdtemp(prefix="c08-"))
    (d / ".git").mkdir()
    (d / ".thailint.yaml").write_text("dry:\n  enabled: true\n  storage_mode: %s\n" % storage_mode)
    (d / "src").mkdir()
    for n, c in FILES.items():
        (d / "src" / n).write_text(c)
    return d


_REF_CACHE = {}
_REF_SCRIPT = r"""
import json, sys, os, tempfile, shutil
from pathlib import Path
sys.path.insert(0, os.environ.get('VERIF_REPO', '/repo'))
import logging; logging.disable(logging.CRITICAL)
try:
    from loguru import logger; logger.remove()
except Exception:
    pass
spec = json.load(sys.stdin)
d = Path(tempfile.mkdtemp(prefix='c08ref-'))
try:
    (d / '.git').mkdir(); (d / 'src').mkdir()
    (d / '.thailint.yaml').write_text(spec['config'])
    for n, c in spec['files'].items():
        (d / 'src' / n).write_text(c)
    if spec['how'] == 'linter-dir':
        from src.api import Linter
        vs = Linter(project_root=d).lint(d)
    else:
        from src.orchestrator.core import Orchestrator
        vs = Orchestrator(project_root=d).lint_files([d / 'src' / n for n in spec['order']])
    out = []
    for v in vs:
        fp = str(Path(v.file_path).relative_to(d)) if str(v.file_path).startswith(str(d)) else v.file_path
        out.append([v.rule_id, fp, v.line, v.column, v.message.replace(str(d) + os.sep, '')])
    print(json.dumps(out))
finally:
    shutil.rmtree(d, True)
"""


def fresh_reference(files, config, how, order=None, hashseed="0"):
    """The same lint run in a pristine interpreter (no module-level state from earlier runs)."""
    import json
    import subprocess
    key = json.dumps([sorted(files.items()), config, how, order, hashseed])
    if key not in _REF_CACHE:
        p = subprocess.run(["/verif/.venv/bin/python", "-c", _REF_SCRIPT], input=json.dumps(
            {"files": files, "config": config, "how": how, "order": order}), capture_output=True, text=True,
            env=dict(os.environ, PYTHONPATH=os.environ.get("VERIF_REPO", "/repo"), PYTHONHASHSEED=hashseed), timeout=300)
        if p.returncode != 0:
            raise RuntimeError("reference run failed: " + p.stderr[-500:])
        _REF_CACHE[key] = Counter(tuple(x) for x in json.loads(p.stdout.strip().splitlines()[-1]))
    return _REF_CACHE[key]


def _state(d):
    return {p.name: p.read_text() for p in sorted((d / "src").iterdir()) if p.is_file()}


def make_h_history(nsteps, quick=False, tiny=False):
    """quick: the smaller file subsets; tiny: three files per operation (for the longest histories)."""
    def h(ctx):
        import src.linter_config.ignore as ign
        from src.api import Linter
        mode = ctx.pick("dry_storage", ("memory", "tempfile") if not (quick or tiny) else ("memory",))
        d = _mk(mode)
        try:
            ign.clear_ignore_parser_cache()
            linter = Linter(project_root=d)
            trace = []
            for step in range(nsteps):
                op = ctx.pick(f"op{step}", ("lint-dir", "lint-file", "edit", "delete", "add", "stop"))
                if op == "stop":
                    break
                if op == "lint-dir":
                    linter.lint(d)
                elif op == "lint-file":
                    f = ctx.pick(f"file{step}", ("dup2.py", "deploy") if tiny else ("dup2.py", "strg1.py", "textutil.py", "magic.py", "deploy") if not quick else ("dup2.py", "textutil.py", "deploy"))
                    if (d / "src" / f).exists():
                        linter.lint(d / "src" / f)
                    op += ":" + f
                elif op == "edit":
                    f = ctx.pick(f"file{step}", ("dup2.py", "strg3.py", "deploy") if tiny else tuple(VARIANTS) if not quick else ("dup2.py", "scanner.py", "deploy", "runner", "strg3.py", "hushed.py"))
                    if (d / "src" / f).exists():
                        (d / "src" / f).write_text(VARIANTS[f])
                    op += ":" + f
                elif op == "delete":
                    f = ctx.pick(f"file{step}", ("dup2.py",) if tiny else ("dup2.py", "strg2.py", "textutil.py") if not quick else ("dup2.py", "textutil.py"))
                    if (d / "src" / f).exists():
                        (d / "src" / f).unlink()
                    op += ":" + f
                elif op == "add":
                    for n, c in ADDED.items():
                        (d / "src" / n).write_text(c)
                trace.append(op)
            ctx.note("trace", trace)
            ctx.note("linted_before", any(t.startswith("lint") for t in trace))
            got = Counter(_key(v, d) for v in linter.lint(d))
            ign.clear_ignore_parser_cache()
            fresh = Counter(_key(v, d) for v in Linter(project_root=d).lint(d))
            pristine = fresh_reference(_state(d), (d / ".thailint.yaml").read_text(), "linter-dir")
        finally:
            shutil.rmtree(d, True)
            ign.clear_ignore_parser_cache()
        stale, lost = got - fresh, fresh - got
        ctx.note("stale_rules", sorted({k[0] for k in stale}))
        ctx.note("lost_rules", sorted({k[0] for k in lost}))
        ctx.cover("same" if not stale and not lost else "different")
        ctx.require("used-linter-equals-fresh-linter", not stale and not lost, trace=trace,
                    reported_again_or_stale=[list(k)[:3] for k in list(stale)[:4]], lost=[list(k)[:3] for k in list(lost)[:4]])
        ctx.require("equals-run-in-a-pristine-process", got == pristine, trace=trace,
                    only_here=[list(k)[:3] for k in list(got - pristine)[:4]], only_pristine=[list(k)[:3] for k in list(pristine - got)[:4]])
    return h


def h_orchestrator_history(ctx):
    """The Orchestrator's own public calls (lint_file, lint_files, lint_directory) on one long-lived object, and a NEW
    object created after the project's ignore list changed: the last call returns what a pristine process returns."""
    import src.linter_config.ignore as ign
    from src.orchestrator.core import Orchestrator
    d = _mk("memory")
    try:
        ign.clear_ignore_parser_cache()
        o = Orchestrator(project_root=d)
        trace = []
        for step in range(2):
            op = ctx.pick(f"op{step}", ("lint_file", "lint_files", "lint_directory", "edit", "new-object-after-ignore-list-change", "stop"))
            if op == "stop":
                break
            if op == "lint_file":
                f = ctx.pick(f"file{step}", ("call_a.py", "dup1.py", "strg1.py", "const_a.py"))
                o.lint_file(d / "src" / f)
                op += ":" + f
            elif op == "lint_files":
                o.lint_files([d / "src" / n for n in ("dup1.py", "dup2.py", "call_a.py")])
            elif op == "lint_directory":
                o.lint_directory(d / "src")
            elif op == "edit":
                f = ctx.pick(f"file{step}", ("dup2.py", "strg3.py"))
                (d / "src" / f).write_text(VARIANTS[f])
                op += ":" + f
            else:
                # the project gets a repository ignore file and the caller builds a new object (same process)
                (d / ".thailintignore").write_text("src/magic.py\nsrc/call_b.py\n")
                o = Orchestrator(project_root=d)
            trace.append(op)
        last = ctx.pick("last_call", ("lint_directory", "lint_files-all"))
        files = sorted(p for p in (d / "src").iterdir() if p.is_file())
        got_v = o.lint_directory(d / "src") if last == "lint_directory" else o.lint_files(files)
        got = Counter(_key(v, d) for v in got_v)
        ignored = (d / ".thailintignore").read_text().split() if (d / ".thailintignore").exists() else []
        state = {n: t for n, t in _state(d).items() if ("src/" + n) not in ignored}
        pristine = fresh_reference(state, (d / ".thailint.yaml").read_text(), "files", sorted(state))
    finally:
        shutil.rmtree(d, True)
        ign.clear_ignore_parser_cache()
    ctx.note("trace", trace)
    ctx.cover("same" if got == pristine else "different")
    ctx.require("equals-run-in-a-pristine-process", got == pristine, trace=trace, last=last,
                only_here=[list(k)[:3] for k in list(got - pristine)[:4]], only_pristine=[list(k)[:3] for k in list(pristine - got)[:4]])


def h_order(ctx):
    import src.linter_config.ignore as ign
    from src.orchestrator.core import Orchestrator
    d = _mk("memory")
    try:
        perms = list(itertools.permutations(range(4)))
        group = ctx.pick("permuted_group", ("duplicates-and-string-sets", "similar-constants"))
        pi = ctx.choice("perm_of_group", len(perms))
        tail_rev = ctx.flag("rest_reversed")
        head = ORDER[:4] if group == "duplicates-and-string-sets" else ["const_a.py", "const_b.py", "const_c.py", "magic.py"]
        rest = [n for n in ORDER if n not in head]
        names = [head[i] for i in perms[pi]] + (rest[::-1] if tail_rev else rest)
        ctx.note("order", names)
        ign.clear_ignore_parser_cache()
        got = Counter(_key(v, d) for v in Orchestrator(project_root=d).lint_files([d / "src" / n for n in names]))
        ign.clear_ignore_parser_cache()
        ref = Counter(_key(v, d) for v in Orchestrator(project_root=d).lint_files([d / "src" / n for n in sorted(ORDER)]))
        twice = Counter(_key(v, d) for v in Orchestrator(project_root=d).lint_files([d / "src" / n for n in names]))
        pristine = fresh_reference(dict(FILES), "dry:\n  enabled: true\n  storage_mode: memory\n", "files", sorted(ORDER))
    finally:
        shutil.rmtree(d, True)
        ign.clear_ignore_parser_cache()
    ctx.cover("same" if got == ref else "different")
    ctx.require("same-for-every-file-order", got == ref, order=names, only_this_order=[list(k)[:3] for k in list(got - ref)[:4]],
                only_sorted_order=[list(k)[:3] for k in list(ref - got)[:4]])
    ctx.require("same-on-repetition", got == twice)
    ctx.require("equals-run-in-a-pristine-process", got == pristine, order=names,
                only_here=[list(k)[:3] for k in list(got - pristine)[:4]], only_pristine=[list(k)[:3] for k in list(pristine - got)[:4]])
    # a sample of interpreter hash seeds (validation only: three seeds, not "every seed")
    for seed in ("1", "4242", "random"):
        other = fresh_reference(dict(FILES), "dry:\n  enabled: true\n  storage_mode: memory\n", "files", sorted(ORDER), hashseed=seed)
        ctx.require("same-under-sampled-hash-seeds", other == pristine, seed=seed,
                    differs=[list(k)[:3] for k in list((other - pristine) + (pristine - other))[:4]])


def _snapshot(root):
    out = {}
    for p in sorted(Path(root).rglob("*")):
        if p.is_file():
            st = p.stat()
            out[str(p.relative_to(root))] = (st.st_size, st.st_mtime_ns, hash(p.read_bytes()))
        else:
            out[str(p.relative_to(root)) + "/"] = None
    return out


def h_side_effects(ctx):
    import src.linter_config.ignore as ign
    from click.testing import CliRunner
    from src.cli_main import cli
    from vsym import catalogue
    mode = ctx.pick("dry_storage", ("memory", "tempfile"))
    cmd = ctx.pick("command", catalogue.linter_commands())
    parallel = ctx.flag("parallel")
    d = _mk(mode)
    tmpdir = Path(tempfile.mkdtemp(prefix="c08tmp-"))
    old_tmp = tempfile.tempdir
    try:
        before = _snapshot(d)
        tempfile.tempdir = str(tmpdir)
        os.environ["TMPDIR"] = str(tmpdir)
        ign.clear_ignore_parser_cache()
        args = [cmd, "--format", "json"] + (["--parallel"] if parallel else []) + [str(d)]
        r = CliRunner().invoke(cli, args)
        after = _snapshot(d)
        left = sorted(p.name for p in tmpdir.iterdir())
    finally:
        tempfile.tempdir = old_tmp
        os.environ.pop("TMPDIR", None)
        shutil.rmtree(d, True)
        shutil.rmtree(tmpdir, True)
        ign.clear_ignore_parser_cache()
    ctx.cover("ran")
    ctx.require("run-completes", r.exit_code in (0, 1), code=r.exit_code, out=r.output[-200:])
    created = sorted(set(after) - set(before))
    deleted = sorted(set(before) - set(after))
    changed = sorted(k for k in before if k in after and before[k] != after[k])
    ctx.require("project-directory-untouched", not created and not deleted and not changed, created=created, deleted=deleted, changed=changed)
    ctx.require("no-temporary-files-left-behind", not left, left=left)


ASSUMPTIONS = (
    "the reference for every history is a fresh Linter on the files as they are now",
    "PYTHONHASHSEED: hash values cannot be made symbolic across the C str hash; three seeds (1, 4242, random) are compared as a validation sample only; order dependence is explored by permuting the file list",
    "side effects: the project directory and the process temporary directory are snapshotted around an in-process CLI run; with --parallel the real process pool is used",
)


def obligations(tier):
    n = 3
    longer = []
    if tier != "quick":
        longer = [Ob(name="K1L-longer-histories-on-one-linter", engine="pathex", harness=make_h_history(4, tiny=True),
                     functions=["Linter.lint/_lint_path (as K1)"],
                     bounds="forked: operation sequences of length <= 4 over {lint directory, lint one of 2 files, edit one of 3 files, delete 1 file, add a file}; memory storage",
                     timeout=3000, workers=14, must_cover=("same",))]
    return longer + [
        Ob(name="K1-histories-on-one-linter", engine="pathex", harness=make_h_history(n, tier == "quick"),
           functions=["Linter.lint/_lint_path", "Orchestrator.lint_file/lint_directory", "DRYRule.check/finalize (storage life cycle)", "StringlyTypedRule.check/finalize",
                      "FilePlacementRule._linter_cache", "linter_config.ignore.get_ignore_parser cache", "PythonRegexInLoopAnalyzer state", "every other rule object reused across calls"],
           bounds="forked: operation sequences of length <= %d over {lint directory, lint one of 4 files, edit one of 4 files to a finding-free variant, delete one of 3 files, add a file with a duplicate} "
                  "on one long-lived Linter, followed by a final directory lint compared with a fresh Linter; both DRY storage modes in the thorough tier" % n,
           timeout=900 if tier == "quick" else 3400, workers=14, must_cover=("same",)),
        Ob(name="K1o-orchestrator-calls-and-new-objects", engine="pathex", harness=h_orchestrator_history,
           functions=["Orchestrator.lint_file / lint_files / lint_directory on one object", "Orchestrator.__init__ after the ignore list changed", "get_ignore_parser cache", "cross-file rules' state between calls"],
           bounds="forked: up to 2 operations from {lint_file(one of 4 files), lint_files(3 files), lint_directory, edit one of 2 files, new object after a .thailintignore appeared} then lint_directory or lint_files(all)",
           timeout=600, workers=14, must_cover=("same",)),
        Ob(name="K2-file-order-and-repetition", engine="pathex", harness=h_order,
           functions=["Orchestrator.lint_files", "cross-file rules' storage queries (ORDER BY / dedup)", "per-analyzer state carried from file to file"],
           bounds="forked: all 24 orders of four files (the duplicate / string-set files, or three files with similar constant names + one) x rest reversed or not (all project files incl. cross-file duplicates, repeated string sets and a pair of files whose findings depend on analyzer state)",
           timeout=600, workers=14, must_cover=("same",)),
        Ob(name="K3-no-side-effects", engine="pathex", harness=h_side_effects,
           functions=["every linter command (in-process CLI)", "DRYCache (memory / tempfile)", "Orchestrator.lint_directory / lint_directory_parallel"],
           bounds="forked: every linter command x sequential/--parallel x DRY storage mode; project directory and temp directory snapshotted before/after",
           timeout=900, workers=1, must_cover=("ran",)),
    ]
