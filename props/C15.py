"""C15 — each command reports only its own rules; rules fire only on their languages."""
from __future__ import annotations

import atexit
import json
import os
import shutil
import tempfile
from collections import Counter
from pathlib import Path

from vsym import catalogue, triggers
from vsym.pathex import And, Eq, Implies, Not, Or
from vsym.runner import Ob

# language support as documented on each linter's page (None = not restricted here)
RUST_ONLY = ("unwrap-abuse", "clone-abuse", "blocking-async")
PYTHON_ONLY = ("stateless-class", "collection-pipeline", "method-property", "lbyl", "performance")
SHEBANGS = ("#!/usr/bin/env python3", "#!/usr/bin/python", "#!/bin/bash", "# not a shebang python", "",
            "#!/usr/bin/env node", "#! /usr/bin/env python", "print('python')",
            # the interpreter decides, not a directory or an argument that happens to contain the word
            "#!/opt/python-tools/bin/node", "#!/usr/bin/env node --title=python", "#!/usr/local/bin/python3.11", "#!/usr/bin/env -S python3 -u",
            "#!/bin/sh run_python_tests.sh", "#!", "#!/usr/bin/env")


def _shebang_interpreter(line):
    """Name of the program a shebang line runs (None if there is none): `env` and its options are skipped."""
    if not line.startswith("#!"):
        return None
    words = line[2:].split()
    if not words:
        return None
    prog = words[0].rsplit("/", 1)[-1]
    if prog == "env":
        rest = [w for w in words[1:] if not w.startswith("-") and "=" not in w]
        return rest[0].rsplit("/", 1)[-1] if rest else None
    return prog
UNKNOWN_EXTS = (".txt", ".md", ".rb", ".pyx", ".typescript", ".rs~", ".cfg")


def _case(ext, mode):
    return {"lower": ext.lower(), "upper": ext.upper(), "title": ext[:2].upper() + ext[2:] if len(ext) > 1 else ext}[mode]


def h_detect(ctx):
    from src.orchestrator.language_detector import EXTENSION_MAP, detect_language
    d = Path(tempfile.mkdtemp(prefix="c15d-"))
    try:
        kind = ctx.pick("kind", ("mapped-extension", "unknown-extension", "extensionless"))
        if kind == "mapped-extension":
            ext = ctx.pick("ext", tuple(sorted(EXTENSION_MAP)))
            mode = ctx.pick("case", ("lower", "upper", "title"))
            f = d / ("Module" + _case(ext, mode))
            f.write_text("x = 1\n")
            want = EXTENSION_MAP[ext]
        elif kind == "unknown-extension":
            ext = ctx.pick("ext", UNKNOWN_EXTS)
            f = d / ("notes" + ext)
            f.write_text("plain text, nothing to see\n")
            want = "unknown"
        else:
            line = ctx.pick("first_line", SHEBANGS)
            rest = ctx.pick("rest_of_file", ("print(3975)\n", "# wrapper around the python tooling\npython3 -m app\n", "python3 -m app\n", ""))
            f = d / "script"
            f.write_text((line + "\n" + rest) if line else rest)
            want = "python" if (_shebang_interpreter(line) or "").startswith("python") else "unknown"
        got = detect_language(f)
    finally:
        shutil.rmtree(d, True)
    ctx.cover(want)
    ctx.require("language-by-extension-case-insensitively-or-python-shebang", got == want, file=f.name, got=got, want=want)


def _lint_as(name, content, companion=None):
    import src.linter_config.ignore as ign
    from src.orchestrator.core import Orchestrator
    d = Path(tempfile.mkdtemp(prefix="c15x-"))
    try:
        (d / ".git").mkdir()
        (d / ".thailint.yaml").write_text(triggers.BASE_CONFIG)
        (d / "src").mkdir()
        f = d / "src" / name
        f.write_text(content)
        files = [f]
        if companion is not None:
            cname, ctext, first = companion
            (d / "src" / cname).write_text(ctext)
            files = [d / "src" / cname, f] if first else [f, d / "src" / cname]
        ign.clear_ignore_parser_cache()
        return [v for v in Orchestrator(project_root=d).lint_files(files) if v.file_path == str(f)]
    finally:
        shutil.rmtree(d, True)
        ign.clear_ignore_parser_cache()


def h_cross_language(ctx):
    tname = ctx.pick("content_of", tuple(triggers.T))
    lang, rule_prefix, _line, text = triggers.T[tname]
    ext = ctx.pick("stored_as", (".py", ".ts", ".js", ".rs", ".java", ".go", ".txt", ".md", ".PY", ".Rs", ""))
    # another file with the same suffix in the same run (its language is decided by its own content / extension)
    comp = ctx.pick("other_file_with_the_same_suffix", ("none", "python-script-before", "python-script-after", "plain-text-before"))
    companion = None
    if comp != "none":
        ctext = ("#!/usr/bin/env python3\n" if comp.startswith("python-script") else "") + "def cost(q):\n    print(q)\n    return q * 5903\n"
        companion = ("earlier" + ext, ctext, comp.endswith("before"))
    vs = _lint_as("sample" + ext, text, companion)
    detected = {".py": "python", ".ts": "typescript", ".js": "javascript", ".rs": "rust", ".java": "java", ".go": "go"}.get(ext.lower(), "unknown")
    ids = sorted({v.rule_id for v in vs})
    ctx.note("detected", detected)
    ctx.cover(detected)
    if detected in ("unknown", "java", "go"):
        src_ids = [i for i in ids if not i.startswith(("file-placement", "file-header"))]
        ctx.require("unrecognised-type-yields-no-source-analysis-finding", not src_ids, stored_as=ext, content=tname, got=src_ids)
    if detected != "rust":
        bad = [i for i in ids if i.split(".")[0] in RUST_ONLY]
        ctx.require("rust-linters-silent-on-other-languages", not bad, stored_as=ext, content=tname, got=bad)
    if detected != "python":
        bad = [i for i in ids if i.split(".")[0] in PYTHON_ONLY]
        ctx.require("python-only-linters-silent-on-other-languages", not bad, stored_as=ext, content=tname, got=bad)
    if detected == lang or (detected, lang) in (("typescript", "javascript"), ("javascript", "typescript")):
        if detected == lang:
            ctx.require("own-language-still-analysed", any(i.startswith(rule_prefix) for i in ids), stored_as=ext, content=tname, got=ids)


_P = {}


def _proj():
    if "d" not in _P:
        d = tempfile.mkdtemp(prefix="c15proj-")
        atexit.register(shutil.rmtree, d, True)
        triggers.write_project(d)
        # the same sources stored with upper-/mixed-case extensions in a directory of their own (extensions are case-insensitive)
        (Path(d) / "cased").mkdir()
        for n, (_lang, _rule, _line, text) in triggers.T.items():
            stem, ext = os.path.splitext(n)
            if ext in (".py", ".ts", ".js", ".rs"):
                (Path(d) / "cased" / (stem + "_up" + ext.upper())).write_text(text)
                (Path(d) / "cased" / (stem + "_mixed" + ext[:2] + ext[2:].upper())).write_text(text)
        _P["d"] = Path(d)
    return _P["d"]


def h_commands(ctx):
    import src.linter_config.ignore as ign
    from click.testing import CliRunner
    from src.cli_main import cli
    d = _proj()
    cmd = ctx.pick("command", tuple(c for c in catalogue.linter_commands() if c != "file-placement"))
    fmt = ctx.pick("format", ("json", "sarif"))
    ign.clear_ignore_parser_cache()
    r = CliRunner().invoke(cli, [cmd, "--format", fmt, str(d / "src")])
    ctx.require("run-completes", r.exit_code in (0, 1), code=r.exit_code)
    if r.exit_code not in (0, 1):
        return
    doc = json.loads(r.output)
    ids = [v["rule_id"] for v in doc["violations"]] if fmt == "json" else [x["ruleId"] for x in doc["runs"][0]["results"]]
    foreign = sorted({i for i in ids if not catalogue.owns(cmd, i)})
    ctx.cover("reports" if ids else "silent")
    ctx.require("command-outputs-only-its-own-rule-ids", not foreign, command=cmd, foreign=foreign)
    ctx.require("command-finds-its-catalogue-violations", bool(ids), command=cmd)
    if fmt == "json":
        # ... and the copies with upper-/mixed-case extensions get, file by file, the findings of the originals
        ign.clear_ignore_parser_cache()
        r2 = CliRunner().invoke(cli, [cmd, "--format", "json", str(d / "cased")])
        ctx.require("run-on-cased-copies-completes", r2.exit_code in (0, 1), code=r2.exit_code)
        if r2.exit_code in (0, 1):
            def per_file(vs, strip):
                out = Counter()
                for v in vs:
                    if v["rule_id"].startswith(("dry.", "stringly-typed.", "file-header")):
                        continue            # cross-file findings pair files up differently; header findings quote the file name
                    name = os.path.basename(v["file_path"])
                    stem = os.path.splitext(name)[0]
                    for suf in strip:
                        if stem.endswith(suf):
                            stem = stem[:-len(suf)]
                    out[(stem, os.path.splitext(name)[1].lower(), v["rule_id"], v["line"])] += 1
                return out
            base = per_file(doc["violations"], ())
            cased = per_file(json.loads(r2.output)["violations"], ("_up", "_mixed"))
            want = Counter({k: 2 * c for k, c in base.items()})
            ctx.require("upper-case-extensions-are-linted-like-lower-case-ones", cased == want, command=cmd,
                        missing=[list(k) for k in list(want - cased)[:3]], extra=[list(k) for k in list(cased - want)[:3]])


# other linters' settings as symbolic values: X's findings must not depend on them
OTHERS = (("nesting", "max_nesting_depth"), ("srp", "max_methods"), ("srp", "max_loc"), ("magic-numbers", "max_small_integer"),
          ("method-property", "max_body_statements"), ("stateless-class", "min_methods"))
SWITCHES = ("nesting", "srp", "magic-numbers", "print-statements", "method-property", "stateless-class", "collection-pipeline",
            "lbyl", "performance", "unwrap-abuse", "clone-abuse", "blocking-async", "file-header", "lazy-ignores", "cqs", "stringly-typed")
SUBJECTS = (("nesting", "nesting.", ("nest.py", "nest.ts", "srp.py")), ("magic-numbers", "magic-numbers.", ("magic.py", "srp.ts")),
            ("srp", "srp.", ("srp.py", "stateless.py")), ("unwrap-abuse", "unwrap-abuse", ("unwrap.rs", "blocking.rs")),
            ("collection-pipeline", "collection-pipeline.", ("pipeline.py",)),
            ("print-statements", "improper-logging.", ("printy.py", "printy.js")), ("lbyl", "lbyl", ("lbyl.py",)))
_BASE = {}
_TIER = {"t": "quick"}


def h_config_isolation(ctx):
    import src.linter_config.ignore as ign
    from src.core.config_parser import _normalize_config_keys
    from src.orchestrator.core import Orchestrator
    d = _proj()
    section, prefix, names = ctx.pick("subject", SUBJECTS if _TIER["t"] != "quick" else SUBJECTS[:5])
    ctx.note("subject", section)
    files = [d / "src" / n for n in names]

    def own(vs):
        return Counter((v.rule_id, v.file_path, v.line, v.message) for v in vs if v.rule_id.startswith(prefix))
    if section not in _BASE:
        ign.clear_ignore_parser_cache()
        _BASE[section] = own(Orchestrator(project_root=d, config={}).lint_files(files))
    cfg = {}
    quick = _TIER["t"] == "quick"
    for s in (SWITCHES if not quick else SWITCHES[:6]):
        if s != section:
            cfg.setdefault(s, {})["enabled"] = ctx.bool("enabled_" + s.replace("-", "_"))
    for s, key in (OTHERS if not quick else OTHERS[:3]):
        if s != section:
            cfg.setdefault(s, {})[key] = ctx.int("%s_%s" % (s.replace("-", "_"), key), 1)
    # another linter's own `ignore` list that happens to match the subject's files: it excuses files from THAT linter only
    # (the thorough tier already carries 16 symbolic switches and 6 thresholds per subject: one section and two lists there)
    others = [s for s in ("srp", "nesting", "magic-numbers", "stateless-class") if s != section][:3 if quick else 1]
    ig = ctx.pick("ignore_list_in_the_section_of", ("none",) + tuple(others)) if (quick or section in ("nesting", "magic-numbers")) else "none"
    if ig != "none":
        lists = (["src/"], ["**/*.py", "**/*.ts", "**/*.rs", "**/*.js"], [n for n in names])
        cfg.setdefault(ig, {})["ignore"] = ctx.pick("ignore_patterns", lists if quick else lists[:2])
    # stray top-level keys that belong to no linter section (global settings, leftovers): no linter reads them as its own
    if ctx.flag("stray_top_level_keys"):
        cfg.update({"enabled": False, "min_continues": 9, "max_nesting_depth": 1, "max_methods": 1, "allowed_numbers": [3975], "output_format": "text"})
    ign.clear_ignore_parser_cache()
    got = own(Orchestrator(project_root=d, config=_normalize_config_keys(cfg)).lint_files(files))
    ctx.cover("checked")
    ctx.require("other-linters-settings-do-not-change-findings", got == _BASE[section], subject=section,
                lost=[list(k)[:3] for k in list(_BASE[section] - got)[:3]], gained=[list(k)[:3] for k in list(got - _BASE[section])[:3]])
    ctx.require("subject-has-findings", bool(_BASE[section]), subject=section)


ASSUMPTIONS = (
    "language support per linter is the one documented on its page: unwrap-abuse/clone-abuse/blocking-async Rust only; stateless-class, collection-pipeline, method-property, lbyl, performance Python only",
    "file-placement and file-header are not source-analysis rules (they judge names/headers of any file type)",
)


def obligations(tier):
    _TIER["t"] = tier
    return [
        Ob(name="K1-language-detection", engine="pathex", harness=h_detect,
           functions=["language_detector.detect_language/_detect_from_shebang/_read_first_line/_parse_shebang_language"],
           bounds="forked: every extension of EXTENSION_MAP x 3 letter-case masks, 7 unknown extensions, extensionless files with 15 first lines (real files in a scratch directory)",
           timeout=120, workers=4, must_cover=("python", "rust", "unknown")),
        Ob(name="K2-rules-fire-only-on-their-languages", engine="pathex", harness=h_cross_language,
           functions=["Orchestrator.lint_files", "every rule's language guard (MultiLanguageLintRule._dispatch_by_language, PythonOnlyLintRule._should_analyze, ad-hoc checks)"],
           bounds="forked: content of each of the %d catalogue trigger files stored under 11 extensions (4 supported languages, java, go, unknown, upper-case variants, none)" % len(triggers.T),
           timeout=600, workers=14, must_cover=("python", "rust", "unknown")),
        Ob(name="K3-commands-report-own-rules-only", engine="pathex", harness=h_commands,
           functions=["every linter command (in-process CLI) on the whole trigger catalogue"],
           bounds="forked: every linter command except file-placement x {json, sarif} on a project triggering 20 rule families",
           timeout=600, workers=14, must_cover=("reports",)),
        Ob(name="K4-config-isolation", engine="pathex", harness=h_config_isolation,
           functions=["Orchestrator.lint_files with symbolic settings of the other linters", "each rule's _load_config"],
           bounds="for 7 subject linters (stray top-level keys added or not): `enabled` of up to 15 other linters symbolic booleans and 6 of their thresholds unbounded integers >= 1 (all symbolic; path splits only where those other rules branch)",
           timeout=900 if tier == "quick" else 2700, workers=14, must_cover=("checked",), max_paths=400000 if tier == "quick" else 900000),
    ]
