"""C05 — configuration honoured identically in every format and for every linter."""
from __future__ import annotations

import atexit
import json
import os
import shutil
import tempfile
from collections import Counter
from pathlib import Path

from vsym import triggers
from vsym.pathex import And, Eq, Implies, Not, Or
from vsym.runner import Ob

# documented section name (per-linter doc page / configuration.md), rule-id prefix, trigger groups
LINTERS = (
    ("nesting", "nesting.", (("nest.py",), ("nest.ts",), ("nest.rs",))),
    ("srp", "srp.", (("srp.py",), ("srp.ts",), ("srp.rs",))),
    ("magic-numbers", "magic-numbers.", (("magic.py",), ("magic.ts",), ("magic.rs",))),
    ("dry", "dry.", (("dup1.py", "dup2.py"),)),
    ("print-statements", "improper-logging.", (("printy.py",), ("printy.ts",))),
    ("improper-logging", "improper-logging.", (("printy.py",), ("printy.js",))),
    ("stringly-typed", "stringly-typed.", (("strg1.py", "strg2.py"),)),
    ("file-header", "file-header.", (("magic.py",),)),
    ("method-property", "method-property.", (("methprop.py",),)),
    ("stateless-class", "stateless-class.", (("stateless.py",),)),
    ("collection-pipeline", "collection-pipeline.", (("pipeline.py",),)),
    ("lazy-ignores", "lazy-ignores", (("lazy.py",),)),
    ("performance", "performance.", (("concat.py",), ("regexloop.py",))),
    ("unwrap-abuse", "unwrap-abuse", (("unwrap.rs",),)),
    ("clone-abuse", "clone-abuse", (("cloney.rs",),)),
    ("blocking-async", "blocking-async", (("blocking.rs",),)),
    ("lbyl", "lbyl", (("lbyl.py",),)),
    ("cqs", "cqs", (("cqs.py",),)),
)
_P = {}
_TIER = {"t": "quick"}


def _proj():
    if "d" not in _P:
        d = tempfile.mkdtemp(prefix="c05proj-")
        atexit.register(shutil.rmtree, d, True)
        triggers.write_project(d, config=None)
        _P["d"] = Path(d)
    return _P["d"]


def _lint(config, names):
    """Real Orchestrator with an in-memory config dict (what every file loader produces after
    key normalisation); returns the violations."""
    from src.orchestrator.core import Orchestrator
    import src.linter_config.ignore as ign
    ign.clear_ignore_parser_cache()
    d = _proj()
    o = Orchestrator(project_root=d, config=config)
    return o.lint_files([d / "src" / n for n in names])


def _own(vs, prefix):
    return [v for v in vs if v.rule_id == prefix or v.rule_id.startswith(prefix if prefix.endswith(".") else prefix + ".")
            or (not prefix.endswith(".") and v.rule_id == prefix)]


_BASE = {}


def _base(section, prefix, names):
    k = (section, names)
    if k not in _BASE:
        cfg = {"dry": {"enabled": True}} if section == "dry" else {}
        _BASE[k] = len(_own(_lint(cfg, names), prefix))
    return _BASE[k]


_TEMPLATE = {}
# sections the generated file may use under the command's name rather than the documentation's
TEMPLATE_ALIASES = {"pipeline": "collection-pipeline"}


def _template(preset):
    """The configuration file `thailint init-config --preset P` writes, parsed."""
    if preset not in _TEMPLATE:
        import yaml
        from click.testing import CliRunner
        from src.cli_main import cli
        d = tempfile.mkdtemp(prefix="c05tpl-")
        old = os.getcwd()
        try:
            os.chdir(d)
            r = CliRunner().invoke(cli, ["init-config", "--non-interactive", "--preset", preset])
            text = open(os.path.join(d, ".thailint.yaml")).read() if r.exit_code == 0 else ""
        finally:
            os.chdir(old)
            shutil.rmtree(d, True)
        _TEMPLATE[preset] = yaml.safe_load(text) or {}
    return _TEMPLATE[preset]


def h_template_sections(ctx):
    """Every linter section written by init-config is the section the linter reads: switching
    `enabled: false` in the generated file silences that linter."""
    import copy
    from src.core.config_parser import _normalize_config_keys
    preset = ctx.pick("preset", ("standard", "strict", "lenient"))
    section, prefix, groups = ctx.pick("linter", LINTERS)
    names = ctx.pick("trigger", groups)
    tpl = _template(preset)
    ctx.require("template-generated", bool(tpl), preset=preset)
    written = [k for k in tpl if isinstance(tpl[k], dict) and TEMPLATE_ALIASES.get(k, k).replace("_", "-") == section]
    ctx.note("linter", section)
    ctx.note("written_as", written)
    if not written:
        ctx.cover("not-in-template")
        return
    cfg = copy.deepcopy(tpl)
    for k in written:
        cfg[k]["enabled"] = False
    own = _own(_lint(_normalize_config_keys(cfg), names), prefix)
    ctx.cover("silent" if not own else "reporting")
    ctx.require("section-written-by-init-config-is-the-one-the-linter-reads", not own, preset=preset, written_as=written, got=len(own))


# documented switches (docs/<linter>-linter.md "Configuration Options"): (section, {key: value} or nested, file name, file text, rule id it must silence)
_LAZY = "import os  # noqa\nimport sys  # type: ignore\nimport json  # pylint: disable=unused-import\nx = eval('1')  # nosec\ny = os.getcwd()  # thailint: ignore[magic-numbers]\n"
SWITCHES = (
    ("lazy-ignores", {"check_noqa": False}, "lazy_sw.py", _LAZY, "lazy-ignores", "noqa"),
    ("lazy-ignores", {"check_type_ignore": False}, "lazy_sw.py", _LAZY, "lazy-ignores", "type: ignore"),
    ("lazy-ignores", {"check_pylint_disable": False}, "lazy_sw.py", _LAZY, "lazy-ignores", "pylint: disable"),
    ("lazy-ignores", {"check_nosec": False}, "lazy_sw.py", _LAZY, "lazy-ignores", "nosec"),
    ("lazy-ignores", {"check_thailint_ignore": False}, "lazy_sw.py", _LAZY, "lazy-ignores", "thailint: ignore"),
    ("performance", {"string-concat-loop": {"enabled": False}}, "concat.py", None, "performance.string-concat-loop", ""),
    ("performance", {"regex-in-loop": {"enabled": False}}, "regexloop.py", None, "performance.regex-in-loop", ""),
    ("performance", {"string_concat_loop": {"enabled": False}}, "concat.py", None, "performance.string-concat-loop", ""),
)


def h_switches(ctx):
    """A documented on/off switch inside a linter section, set to false, removes exactly the findings it governs."""
    from src.core.config_parser import _normalize_config_keys
    from src.orchestrator.core import Orchestrator
    import src.linter_config.ignore as ign
    section, body, fname, text, rule_id, needle = ctx.pick("switch", SWITCHES)
    spelled = section if ctx.pick("spelling", ("hyphen", "underscore")) == "hyphen" else section.replace("-", "_")
    d = _proj()
    f = d / "src" / fname
    created = False
    if text is not None and not f.exists():
        f.write_text(text)
        created = True
    try:
        def run(cfg):
            ign.clear_ignore_parser_cache()
            return [v for v in Orchestrator(project_root=d, config=_normalize_config_keys(cfg)).lint_files([f])]
        base = run({})
        got = run({spelled: body})
    finally:
        if created:
            f.unlink()

    def governed(v):
        return v.rule_id.startswith(rule_id) and (not needle or ("found: # " + needle) in v.message)
    gb = [v for v in base if governed(v)]
    ctx.note("section", section)
    ctx.note("switch", json.dumps(body))
    ctx.require("switch-governs-something-by-default", len(gb) >= 1, section=section, switch=body, base=[(v.rule_id, v.line, v.message[:50]) for v in base][:6])
    gg = [v for v in got if governed(v)]
    ctx.cover("silenced" if not gg else "still-reported")
    ctx.require("documented-switch-off-silences-what-it-governs", not gg, section=spelled, switch=body, still=[(v.rule_id, v.line, v.message[:60]) for v in gg][:3])
    k = lambda v: (v.rule_id, v.line, v.message)
    others_b = Counter(k(v) for v in base if not governed(v) and not v.rule_id.startswith("lazy-ignores"))
    others_g = Counter(k(v) for v in got if not governed(v) and not v.rule_id.startswith("lazy-ignores"))
    ctx.require("nothing-else-changes", others_b == others_g, section=spelled, switch=body)


_TWO_CONCATS = {".py": "def join_all(xs):\n    out = ''\n    for x in xs:\n        out += str(x)\n        out += ','\n    return out\n",
                ".ts": "function joinAll(xs: string[]): string {\n  let out = '';\n  for (const x of xs) {\n    out += x;\n    out += ',';\n  }\n  return out;\n}\n"}


def h_report_each_concat(ctx):
    """performance.string-concat-loop.report_each_concat (documented, default false): one finding per loop variable when
    off or absent, one per += when on; in both key spellings and both languages."""
    from src.core.config_parser import _normalize_config_keys
    from src.orchestrator.core import Orchestrator
    import src.linter_config.ignore as ign
    ext = ctx.pick("language", tuple(_TWO_CONCATS))
    setting = ctx.pick("report_each_concat", ("absent", "false", "true"))
    rule_key = ctx.pick("rule_key", ("string-concat-loop", "string_concat_loop"))
    d = _proj()
    f = d / "src" / ("two_concats" + ext)
    f.write_text(_TWO_CONCATS[ext])
    try:
        cfg = {} if setting == "absent" else {"performance": {rule_key: {"report_each_concat": setting == "true"}}}
        ign.clear_ignore_parser_cache()
        vs = [v for v in Orchestrator(project_root=d, config=_normalize_config_keys(cfg)).lint_files([f]) if v.rule_id == "performance.string-concat-loop"]
    finally:
        f.unlink()
    ctx.cover("each" if setting == "true" else "one")
    want = [4, 5] if setting == "true" else [4]
    ctx.require("documented-report_each_concat-switch-takes-effect", sorted(v.line for v in vs) == want, setting=setting, got=sorted(v.line for v in vs), want=want)


# a threshold option on the command line replaces that threshold only: the rest of the linter's section stays in effect
OPTION_SECTIONS = (
    ("nesting", ("--max-depth", "1"), ("nesting",), "nest.py"),
    ("srp", ("--max-methods", "1"), ("srp",), "srp.py"),
    ("dry", ("--min-lines", "2"), ("dry",), "dup1.py"),
    ("pipeline", ("--min-continues", "1"), ("collection-pipeline", "collection_pipeline", "pipeline"), "pipeline.py"),
)


def h_option_keeps_section(ctx):
    import src.linter_config.ignore as ign
    from click.testing import CliRunner
    from src.cli_main import cli
    cmd, option, sections, fname = ctx.pick("command", OPTION_SECTIONS)
    section = ctx.pick("section_written_as", sections)
    other = ctx.pick("other_setting", ("enabled-false", "ignore-the-file"))
    with_option = ctx.flag("threshold_option_given")
    d = Path(tempfile.mkdtemp(prefix="c05opt-"))
    try:
        (d / ".git").mkdir()
        (d / "src").mkdir()
        names = ("dup1.py", "dup2.py") if cmd == "dry" else (fname,)
        for n in names:
            (d / "src" / n).write_text(triggers.DUP_FILES[n] if n in triggers.DUP_FILES else triggers.T[n][3])
        body = "  enabled: false\n" if other == "enabled-false" else "  enabled: true\n  ignore:\n" + "".join("    - src/%s\n" % n for n in names)
        (d / ".thailint.yaml").write_text("%s:\n%s" % (section, body))
        ign.clear_ignore_parser_cache()
        r = CliRunner().invoke(cli, [cmd, "--format", "json"] + (list(option) if with_option else []) + [str(d / "src")])
        try:
            n_found = len(json.loads(r.output[r.output.index("{"):])["violations"])
        except (ValueError, KeyError):
            n_found = None
    finally:
        shutil.rmtree(d, True)
        ign.clear_ignore_parser_cache()
    ctx.note("command", cmd)
    ctx.cover("silent" if n_found == 0 else "reporting")
    ctx.require("run-completes", r.exit_code in (0, 1) and n_found is not None, code=r.exit_code, out=r.output[-200:])
    ctx.require("section-stays-in-effect-next-to-a-threshold-option", n_found == 0, command=cmd, section=section, other=other,
                option=option if with_option else None, found=n_found)


def h_enabled(ctx):
    from src.core.config_parser import _normalize_config_keys
    section, prefix, groups = ctx.pick("linter", LINTERS)
    ctx.note("linter", section)
    names = ctx.pick("trigger", groups)
    spelled = section if ctx.pick("spelling", ("hyphen", "underscore")) == "hyphen" else section.replace("-", "_")
    e = ctx.bool("enabled")
    raw = {spelled: {"enabled": e}}
    cfg = _normalize_config_keys(raw)
    base = _base(section, prefix, names)
    ctx.require("trigger-fires-by-default", base > 0, section=section, names=names)
    own = _own(_lint(cfg, names), prefix)
    ctx.cover("silent" if not own else "reporting")
    ctx.require("enabled-false-silences-the-linter", Implies(Not(e), len(own) == 0), section=spelled, got=len(own))
    ctx.require("enabled-true-same-as-default", Implies(e, len(own) == base), section=spelled, got=len(own), base=base)


# (section, key, trigger, prefix, documented-invalid-when-non-positive)
THRESHOLDS = (
    ("nesting", "max_nesting_depth", ("nest.ts",), "nesting.", True),
    ("nesting", "max_nesting_depth", ("nest.py",), "nesting.", True),
    ("srp", "max_methods", ("srp.py",), "srp.", True),
    ("srp", "max_loc", ("srp.rs",), "srp.", True),
    ("magic-numbers", "max_small_integer", ("magic.py",), "magic-numbers.", True),
    ("dry", "min_duplicate_lines", ("dup1.py", "dup2.py"), "dry.", True),
    ("dry", "min_occurrences", ("dup1.py", "dup2.py"), "dry.", True),
    ("method-property", "max_body_statements", ("methprop.py",), "method-property.", "reversed"),
    ("cqs", "min_operations", ("cqs.py",), "cqs", False),
    ("collection-pipeline", "min_continues", ("pipeline.py",), "collection-pipeline.", True),
)


def h_monotone(ctx):
    from src.core.config_parser import _normalize_config_keys
    section, key, names, prefix, positive = ctx.pick("threshold", THRESHOLDS)
    ctx.note("threshold", section + "." + key)
    spelled = section if ctx.pick("spelling", ("hyphen", "underscore")) == "hyphen" else section.replace("-", "_")
    hi = 9 if _TIER["t"] == "quick" else 16
    a = ctx.int("a", -1, hi)
    b = ctx.int("b", -1, hi)
    ctx.assume(a <= b)

    def run(val):
        sec = {key: val}
        if section == "dry":
            sec["enabled"] = True
        try:
            return _own(_lint(_normalize_config_keys({spelled: sec}), names), prefix), None
        except ValueError as ex:
            return None, ex
    va, ea = run(a)
    vb, eb = run(b)
    if positive is True:
        ctx.require("non-positive-value-rejected", Eq(ea is not None, a <= 0), key=key)
        ctx.require("non-positive-value-rejected", Eq(eb is not None, b <= 0), key=key)
    if ea is not None or eb is not None:
        ctx.cover("rejected")
        return
    if section == "dry":   # blocks of different window sizes are not comparable line by line: compare per file
        ka = Counter({(v.rule_id, v.file_path): 1 for v in va})
        kb = Counter({(v.rule_id, v.file_path): 1 for v in vb})
    else:
        ka = Counter((v.rule_id, v.file_path, v.line) for v in va)
        kb = Counter((v.rule_id, v.file_path, v.line) for v in vb)
    ctx.cover("fires" if ka else "quiet")
    if positive == "reversed":     # documented as an upper bound on what is *flagged*: smaller = more permissive
        ka, kb = kb, ka
    ctx.require("more-permissive-never-adds", not (kb - ka), key=key, extra=[list(k) for k in (kb - ka)][:3])


EXTREMES = (      # documented thresholds: at a value no code reaches, the linter has nothing left to report
    ("nesting", "max_nesting_depth", ("nest.py",), "nesting."), ("nesting", "max_nesting_depth", ("nest.rs",), "nesting."),
    ("dry", "min_duplicate_lines", ("dup1.py", "dup2.py"), "dry."), ("dry", "min_occurrences", ("dup1.py", "dup2.py"), "dry."),
    ("dry", "min_duplicate_tokens", ("dup1.py", "dup2.py"), "dry."),
    ("collection-pipeline", "min_continues", ("pipeline.py",), "collection-pipeline."), ("cqs", "min_operations", ("cqs.py",), "cqs"),
)


def h_extreme_threshold(ctx):
    """A documented threshold that is read at all silences its linter when set to a value nothing reaches."""
    from src.core.config_parser import _normalize_config_keys
    section, key, names, prefix = ctx.pick("threshold", EXTREMES)
    ctx.note("threshold", section + "." + key)
    spelled = section if ctx.pick("spelling", ("hyphen", "underscore")) == "hyphen" else section.replace("-", "_")
    value = ctx.pick("value", (100000, 10 ** 9))
    sec = {key: value}
    if section in ("dry", "cqs"):
        sec["enabled"] = True
    base = _own(_lint(_normalize_config_keys({spelled: {"enabled": True}} if section in ("dry", "cqs") else {}), names), prefix)
    got = _own(_lint(_normalize_config_keys({spelled: sec}), names), prefix)
    ctx.cover("silenced" if not got else "still-reported")
    ctx.require("trigger-fires-at-the-default", len(base) >= 1, threshold=section + "." + key)
    ctx.require("extreme-threshold-silences", not got, threshold=section + "." + key, value=value, still=[(v.rule_id, v.line) for v in got][:3])


def h_lang_inherit(ctx):
    """Per-language sections override only the keys they set; the rest is inherited from the top level."""
    which = ctx.pick("config", ("srp", "nesting", "magic-numbers"))
    lang = ctx.pick("language", ("python", "typescript", "javascript", "rust"))
    sect_lang = ctx.pick("section_for", ("python", "typescript", "javascript", "rust"))
    ctx.note("config", which)
    top_a, top_b = ctx.int("top_a", 1), ctx.int("top_b", 1)
    ov_a, ov_b = ctx.int("ov_a", 1), ctx.int("ov_b", 1)
    sets = ctx.pick("section_sets", ("a", "b", "both", "nothing"))
    has_top_a, has_top_b = ctx.flag("top_has_a"), ctx.flag("top_has_b")
    if which == "srp":
        from src.linters.srp.config import SRPConfig as C, DEFAULT_MAX_METHODS_PER_CLASS as DA, DEFAULT_MAX_LOC_PER_CLASS as DB
        ka, kb = "max_methods", "max_loc"
    elif which == "nesting":
        from src.linters.nesting.config import NestingConfig as C, DEFAULT_MAX_NESTING_DEPTH as DA
        ka, kb, DB = "max_nesting_depth", None, None
    else:
        from src.linters.magic_numbers.config import MagicNumberConfig as C
        ka, kb, DA, DB = "max_small_integer", None, 10, None
    cfg = {}
    if has_top_a:
        cfg[ka] = top_a
    if kb and has_top_b:
        cfg[kb] = top_b
    sec = {}
    if sets in ("a", "both"):
        sec[ka] = ov_a
    if kb and sets in ("b", "both"):
        sec[kb] = ov_b
    cfg[sect_lang] = sec
    c = C.from_dict(cfg, language=lang)
    applies = sect_lang == lang
    want_a = ov_a if (applies and ka in sec) else (top_a if has_top_a else DA)
    ctx.require("threshold-inherits-per-key", Eq(getattr(c, ka), want_a), key=ka, config=which)
    if kb:
        want_b = ov_b if (applies and kb in sec) else (top_b if has_top_b else DB)
        ctx.require("threshold-inherits-per-key", Eq(getattr(c, kb), want_b), key=kb, config=which)


class _Orch:
    def __init__(self, config):
        self.config = config


def h_cli_override(ctx):
    """Threshold options on the command line win over every file value, for every language."""
    which = ctx.pick("option", ("nesting --max-depth", "srp --max-methods", "srp --max-loc"))
    lang = ctx.pick("language", ("python", "typescript", "javascript", "rust"))
    ctx.note("language", lang)
    ctx.note("option", which)
    cli_v = ctx.int("cli_value", 1)
    file_v = ctx.int("file_value", 1)
    has_top = ctx.flag("file_sets_top_level")
    ov_lang = ctx.pick("override_section_for", ("none", "python", "typescript", "javascript", "rust"))
    ov_v = ctx.int("lang_override_value", 1)
    ctx.note("override_section_for", ov_lang)
    if which.startswith("nesting"):
        from src.cli.linters.structure_quality import _apply_nesting_config_override
        from src.linters.nesting.config import NestingConfig
        sec = {}
        if has_top:
            sec["max_nesting_depth"] = file_v
        if ov_lang != "none":
            sec[ov_lang] = {"max_nesting_depth": ov_v}
        o = _Orch({"nesting": sec} if (has_top or ov_lang != "none") else {})
        _apply_nesting_config_override(o, cli_v, False)
        eff = NestingConfig.from_dict(o.config["nesting"], language=lang).max_nesting_depth
    else:
        from src.cli.linters.structure_quality import _apply_srp_config_override
        from src.linters.srp.config import SRPConfig
        key = "max_methods" if which.endswith("methods") else "max_loc"
        other_key = "max_loc" if key == "max_methods" else "max_methods"
        sec = {}
        if has_top:
            sec[key] = file_v
        if ov_lang != "none":
            content = ctx.pick("override_sets", ("same-key", "other-key-only", "both-keys"))
            sec[ov_lang] = {"same-key": {key: ov_v}, "other-key-only": {other_key: ov_v},
                            "both-keys": {key: ov_v, other_key: ov_v}}[content]
        o = _Orch({"srp": sec} if (has_top or ov_lang != "none") else {})
        if key == "max_methods":
            _apply_srp_config_override(o, cli_v, None, False)
        else:
            _apply_srp_config_override(o, None, cli_v, False)
        eff = getattr(SRPConfig.from_dict(o.config["srp"], language=lang), key)
    ctx.require("command-line-threshold-wins", Eq(eff, cli_v), option=which, language=lang, override_for=ov_lang)


# ---------------------------------------------------------------- carriers (concrete, forked)
CARRIERS = ("yaml", "json", "pyproject")
LIMIT = {"yaml": 2, "json": 3, "pyproject": 7}


def _write_carrier(d, kind, spelling, malformed=False, ignore_list="own"):
    """ignore_list: 'own' (ignore: [skipme_<kind>/]), 'absent' (no ignore key) or 'empty' (ignore: [])."""
    mn = "magic-numbers" if spelling == "hyphen" else "magic_numbers"
    body = {"nesting": {"max_nesting_depth": LIMIT[kind]}, mn: {"enabled": False},
            "ignore": ["skipme_%s/" % kind]}
    if ignore_list == "absent":
        body.pop("ignore")
    elif ignore_list == "empty":
        body["ignore"] = []
    if kind == "yaml":
        text = "nesting:\n  max_nesting_depth: %d\n%s:\n  enabled: false\n" % (LIMIT[kind], mn) + \
            {"own": "ignore:\n  - skipme_yaml/\n", "absent": "", "empty": "ignore: []\n"}[ignore_list]
        if malformed:
            text = "nesting: [unclosed\n  : :\n"
        (d / ".thailint.yaml").write_text(text)
    elif kind == "json":
        text = json.dumps(body)
        if malformed:
            text = "{\"nesting\": "
        (d / ".thailint.json").write_text(text)
    else:
        ig_line = {"own": "ignore = [\"skipme_pyproject/\"]\n", "absent": "", "empty": "ignore = []\n"}[ignore_list]
        text = ("[tool.thailint]\n" + ig_line + "[tool.thailint.nesting]\nmax_nesting_depth = %d\n"
                "[tool.thailint.%s]\nenabled = false\n" % (LIMIT[kind], mn))
        if malformed:
            text = "[tool.thailint\nnesting = = 3\n"
        (d / "pyproject.toml").write_text(text)


def h_carriers(ctx):
    import src.linter_config.ignore as ign
    from src.orchestrator.core import Orchestrator
    present = [k for k in CARRIERS if ctx.flag("has_" + k)]
    spelling = ctx.pick("spelling", ("hyphen", "underscore"))
    bad = ctx.pick("malformed", ("none",) + tuple(present))
    # the carrier in effect may have no ignore list of its own: the lists of the carriers it shadows stay out of the run
    first_ignore = ctx.pick("ignore_list_of_the_effective_carrier", ("own", "absent", "empty")) if len(present) >= 2 else "own"
    entry = ctx.pick("entry", ("library", "cli", "cli-nested-targets-no-git"))
    d = Path(tempfile.mkdtemp(prefix="c05car-"))
    cwd0 = os.getcwd()
    try:
        if entry != "cli-nested-targets-no-git":
            (d / ".git").mkdir()        # otherwise the configuration file is the only thing that marks the project root
        (d / "src").mkdir()
        (d / "src" / "nest.ts").write_text(triggers.T["nest.ts"][3])       # documented depth 5
        (d / "src" / "magic.py").write_text(triggers.T["magic.py"][3])
        for k in CARRIERS:
            (d / ("skipme_" + k)).mkdir()
            (d / ("skipme_" + k) / "p.py").write_text(triggers.T["printy.py"][3])
        for k in present:
            _write_carrier(d, k, spelling, malformed=(k == bad), ignore_list=first_ignore if (present and k == present[0]) else "own")
        eff = present[0] if present else None
        ctx.note("effective_carrier", eff)
        ctx.note("malformed", bad)
        ign.clear_ignore_parser_cache()
        if entry.startswith("cli"):
            from click.testing import CliRunner
            from src.cli_main import cli
            outs = {}
            targets = [str(d)]
            if entry == "cli-nested-targets-no-git":
                os.chdir(d)
                targets = ["src"] + ["skipme_" + k for k in CARRIERS]
            for cmd in ("nesting", "magic-numbers", "improper-logging"):
                ign.clear_ignore_parser_cache()
                r = CliRunner().invoke(cli, [cmd, "--format", "json"] + targets)
                outs[cmd] = r
            codes = {c: r.exit_code for c, r in outs.items()}
            if eff is not None and bad == eff:
                ctx.cover("malformed")
                ctx.require("unparsable-effective-config-exits-2", all(c == 2 for c in codes.values()), codes=codes, carrier=eff)
                return
            ctx.require("run-completes", all(c in (0, 1) for c in codes.values()), codes=codes)
            docs = {c: json.loads(r.output) for c, r in outs.items()}
            nest = [v for v in docs["nesting"]["violations"]]
            magic = [v for v in docs["magic-numbers"]["violations"] if v["file_path"].endswith("magic.py")]
            prints = {Path(v["file_path"]).parent.name for v in docs["improper-logging"]["violations"]}
        else:
            if eff is not None and bad == eff:
                try:
                    Orchestrator(project_root=d).lint_directory(d)
                    raised = False
                except Exception:
                    raised = True
                ctx.cover("malformed")
                ctx.require("unparsable-effective-config-is-an-error", raised, carrier=eff)
                return
            vs = Orchestrator(project_root=d).lint_directory(d)
            nest = [v for v in vs if v.rule_id.startswith("nesting.")]
            magic = [v for v in vs if v.rule_id.startswith("magic-numbers.") and v.file_path.endswith("magic.py")]
            prints = {Path(v.file_path).parent.name for v in vs if v.rule_id.startswith("improper-logging.")}
        ctx.cover("effective-" + str(eff))
        # threshold of the effective carrier: nest.ts has documented depth 5
        limit = LIMIT[eff] if eff else 4
        ctx.require("threshold-from-first-carrier-in-documented-order", (len(nest) == 1) == (5 > limit),
                    carrier=eff, got=len(nest), limit=limit)
        ctx.require("enabled-false-honoured-in-carrier", (len(magic) == 0) == (eff is not None), carrier=eff,
                    spelling=spelling, got=len(magic))
        want_prints = {"skipme_" + k for k in CARRIERS if k != eff or first_ignore != "own"}
        ctx.require("top-level-ignore-list-honoured-in-carrier", prints == want_prints, carrier=eff,
                    got=sorted(prints), want=sorted(want_prints))
    finally:
        os.chdir(cwd0)
        shutil.rmtree(d, True)
        ign.clear_ignore_parser_cache()


def h_config_option(ctx):
    """--config FILE as the carrier (yaml / json, hyphen / underscore keys)."""
    import src.linter_config.ignore as ign
    from click.testing import CliRunner
    from src.cli_main import cli
    fmt = ctx.pick("file_format", ("yaml", "json", "yml", "json-tab-indented"))
    tabbed, fmt = fmt.endswith("tab-indented"), fmt.split("-")[0]
    spelling = ctx.pick("spelling", ("hyphen", "underscore"))
    also_default = ctx.flag("project_also_has_thailint_yaml")
    d = Path(tempfile.mkdtemp(prefix="c05cfg-"))
    try:
        (d / ".git").mkdir()
        (d / "src").mkdir()
        (d / "src" / "nest.ts").write_text(triggers.T["nest.ts"][3])       # documented depth 5
        (d / "src" / "magic.py").write_text(triggers.T["magic.py"][3])
        (d / "skipme").mkdir()
        (d / "skipme" / "p.py").write_text(triggers.T["printy.py"][3])
        (d / "keep").mkdir()
        (d / "keep" / "p.py").write_text(triggers.T["printy.py"][3])
        (d / "keep" / "dup1.py").write_text(triggers.DUP_FILES["dup1.py"])
        (d / "keep" / "dup2.py").write_text(triggers.DUP_FILES["dup2.py"])
        (d / "skipme" / "dup3.py").write_text(triggers.DUP_FILES["dup1.py"])
        mn = "magic-numbers" if spelling == "hyphen" else "magic_numbers"
        body = {"nesting": {"max_nesting_depth": 9}, mn: {"enabled": False}, "ignore": ["skipme/"], "dry": {"enabled": True}}
        cfgdir = d / "conf"
        cfgdir.mkdir()
        f = cfgdir / ("custom." + fmt)
        if fmt == "json":
            f.write_text(json.dumps(body, indent="\t") if tabbed else json.dumps(body))
        else:
            f.write_text("nesting:\n  max_nesting_depth: 9\n%s:\n  enabled: false\nignore:\n  - skipme/\ndry:\n  enabled: true\n" % mn)
        if also_default:
            (d / ".thailint.yaml").write_text("nesting:\n  max_nesting_depth: 2\n")
        outs = {}
        for cmd in ("nesting", "magic-numbers", "improper-logging", "dry"):
            ign.clear_ignore_parser_cache()
            outs[cmd] = CliRunner().invoke(cli, ["--project-root", str(d), cmd, "--config", str(f), "--format", "json", str(d)])
        codes = {c: r.exit_code for c, r in outs.items()}
        ctx.cover("ran")
        ctx.require("run-completes", all(c in (0, 1) for c in codes.values()), codes=codes, out=outs["nesting"].output[-200:])
        if not all(c in (0, 1) for c in codes.values()):
            return
        docs = {c: json.loads(r.output) for c, r in outs.items()}
        ctx.require("threshold-from-config-option-wins", len(docs["nesting"]["violations"]) == 0, got=len(docs["nesting"]["violations"]))
        magic = [v for v in docs["magic-numbers"]["violations"] if v["file_path"].endswith("magic.py")]
        ctx.require("enabled-false-honoured-in-config-option", not magic, spelling=spelling, fmt=fmt)
        prints = {Path(v["file_path"]).parent.name for v in docs["improper-logging"]["violations"]}
        ctx.require("top-level-ignore-list-honoured-in-config-option", prints == {"keep"}, got=sorted(prints))
        dups = {Path(v["file_path"]).parent.name for v in docs["dry"]["violations"]}
        ctx.require("top-level-ignore-list-honoured-by-the-dry-command-too", dups == {"keep"}, got=sorted(dups))
    finally:
        shutil.rmtree(d, True)
        ign.clear_ignore_parser_cache()


SECTION_CARRIERS = (".thailint.yaml", ".thailint.json", "pyproject.toml", "--config custom.yaml", "--config custom.json",
                    "--config custom.json (tab-indented, BOM-free)")


def h_carrier_sections(ctx):
    """Every linter's section, in both spellings, written to every carrier and read back by the REAL loaders:
    `enabled: false` silences exactly that linter whichever file carries it."""
    import src.linter_config.ignore as ign
    from src.api import Linter
    section, prefix, groups = ctx.pick("linter", LINTERS)
    names = groups[0]
    carrier = ctx.pick("carrier", SECTION_CARRIERS)
    spelled = section if ctx.pick("spelling", ("hyphen", "underscore")) == "hyphen" else section.replace("-", "_")
    src0 = _proj() / "src"
    d = Path(tempfile.mkdtemp(prefix="c05sec-"))
    try:
        (d / ".git").mkdir()
        (d / "src").mkdir()
        for n in names:
            shutil.copy(src0 / n, d / "src" / n)
        files = [d / "src" / n for n in names]

        def run(body):
            for f in (".thailint.yaml", ".thailint.json", "pyproject.toml", "custom.yaml", "custom.json"):
                (d / f).unlink(missing_ok=True)
            explicit = None
            if body is not None:
                if carrier.endswith(".yaml"):
                    text = "".join("%s:\n%s" % (k, "".join("  %s: %s\n" % (a, json.dumps(b)) for a, b in v.items())) for k, v in body.items())
                elif "tab-indented" in carrier:
                    text = json.dumps(body, indent="\t")
                elif carrier.endswith(".json"):
                    text = json.dumps(body)
                else:
                    text = "".join("[tool.thailint.%s]\n%s" % (k, "".join("%s = %s\n" % (a, json.dumps(b)) for a, b in v.items())) for k, v in body.items())
                fname = carrier.split()[1] if carrier.startswith("--config") else carrier
                (d / fname).write_text(text)
                explicit = str(d / fname) if carrier.startswith("--config") else None
            ign.clear_ignore_parser_cache()
            linter = Linter(config_file=explicit, project_root=str(d)) if explicit else Linter(project_root=str(d))
            out = []
            for f in files:
                out += linter.lint(f) if len(files) == 1 else []
            if len(files) > 1:
                out = linter.lint(d / "src")
            return _own(out, prefix)

        base = run({"dry": {"enabled": True}} if section == "dry" else None)
        ctx.require("trigger-fires-without-the-section", len(base) > 0, linter=section)
        got = run({spelled: {"enabled": False}})
        ctx.cover("ran")
        ctx.require("enabled-false-honoured-in-every-carrier-and-spelling", not got, linter=section, carrier=carrier,
                    spelled=spelled, got=[v.rule_id for v in got][:3])
    finally:
        shutil.rmtree(d, True)
        ign.clear_ignore_parser_cache()


ASSUMPTIONS = (
    "in-memory config dicts stand for what every file loader produces: the real _normalize_config_keys is applied to them (the YAML/JSON/TOML parsers themselves are outside the solver's reach and are covered concretely by K3)",
    "documented section names are those of each linter's documentation page",
)


def obligations(tier):
    _TIER["t"] = tier
    obs = [
        Ob(name="K1-enabled-flag-every-linter", engine="pathex", harness=h_enabled,
           functions=["config_parser._normalize_config_keys", "Orchestrator.__init__/lint_files/lint_file", "every rule's check()/finalize() and its _load_config",
                      "core.linter_utils.load_linter_config", "each linter's Config.from_dict"],
           bounds="enabled symbolic (bool); forked: %d documented sections x {hyphen, underscore} x trigger files per language" % len(LINTERS),
           timeout=600, workers=14, must_cover=("silent", "reporting")),
        Ob(name="K1t-sections-written-by-init-config", engine="pathex", harness=h_template_sections,
           functions=["thailint init-config --preset P (generated .thailint.yaml)", "config_parser._normalize_config_keys", "every rule's _load_config / section lookup"],
           bounds="forked: 3 presets x %d linters x trigger files; the generated file with enabled: false in the linter's section as written by the template" % len(LINTERS),
           timeout=600, workers=14, must_cover=("silent",)),
        Ob(name="K1s-documented-switches", engine="pathex", harness=h_switches,
           functions=["LazyIgnoresRule.check/_load_config/check_content", "PerformanceConfig.from_dict/for_rule", "StringConcatLoopRule/RegexInLoopRule._load_config"],
           bounds="forked: %d documented switches (lazy-ignores check_*, performance per-rule enabled) x {hyphen, underscore} section spelling" % len(SWITCHES),
           timeout=300, workers=8, must_cover=("silenced",)),
        Ob(name="K1r-report-each-concat-switch", engine="pathex", harness=h_report_each_concat,
           functions=["PerformanceConfig.from_dict/for_rule", "StringConcatLoopRule._check_python/_check_typescript", "deduplicate_violations"],
           bounds="forked: 2 languages x switch absent / false / true x 2 spellings of the rule key; a loop with two += on one variable",
           timeout=120, workers=6, must_cover=("each", "one")),
        Ob(name="K2d-threshold-option-keeps-the-section", engine="pathex", harness=h_option_keeps_section,
           functions=["_apply_*_config_override / ensure_config_section / set_config_value", "each linter's section lookup", "Orchestrator._linter_ignores_file"],
           bounds="forked: 4 commands with a threshold option x every accepted spelling of their section x {enabled: false, ignore list} x option given or not",
           timeout=300, workers=8, must_cover=("silent",)),
        Ob(name="K2-threshold-monotone-and-validated", engine="pathex", harness=h_monotone,
           functions=["the threshold linters' Config.from_dict/__post_init__", "NestingDepthRule/SRPRule/MagicNumberRule/DRYRule/MethodPropertyRule/CQSRule/CollectionPipelineRule .check"],
           bounds="two thresholds a <= b in [-1, 9] (thorough: [-1, 16]) (symbolic where the code only compares, enumerated by forking where it needs a machine integer); 10 (section, key) pairs x 2 spellings",
           timeout=900, workers=14, must_cover=("rejected", "fires")),
        Ob(name="K2e-thresholds-take-effect-at-extreme-values", engine="pathex", harness=h_extreme_threshold,
           functions=["NestingConfig/DRYConfig/CollectionPipelineConfig/CQSConfig.from_dict", "the rules' use of the threshold"],
           bounds="forked: %d documented thresholds x key spelling x values 10^5 and 10^9 on the linter's trigger" % len(EXTREMES),
           timeout=200, workers=8, must_cover=("silenced",)),
        Ob(name="K2b-cli-threshold-overrides", engine="pathex", harness=h_cli_override,
           functions=["cli.linters.structure_quality._apply_nesting_config_override/_apply_nesting_to_languages/_apply_srp_config_override",
                      "cli.linters.shared.ensure_config_section/set_config_value", "NestingConfig.from_dict", "SRPConfig.from_dict"],
           bounds="CLI value, file value and per-language override value unbounded integers >= 1 (symbolic to the end); forked: option (3), language (4), presence of top-level value, language of the override section (none + 4)",
           timeout=120, workers=4),
        Ob(name="K2c-language-section-inheritance", engine="pathex", harness=h_lang_inherit,
           functions=["SRPConfig.from_dict", "NestingConfig.from_dict", "MagicNumberConfig.from_dict"],
           bounds="top-level and per-language values unbounded integers >= 1 (symbolic to the end); forked: config class (3), file language (4), language of the section (4), keys the section sets, keys the top level sets",
           timeout=200, workers=8),
        Ob(name="K3-carriers-and-discovery-order", engine="pathex", harness=h_carriers,
           functions=["Orchestrator.__init__ (config discovery)", "linter_config.loader.load_config", "config_parser.parse_config_file/parse_yaml/parse_json/parse_pyproject_toml/_normalize_config_keys",
                      "linter_config.ignore._load_repo_ignores/_parse_config_file", "cli entry: setup_base_orchestrator / handle_linting_error"],
           bounds="forked only (the YAML/JSON/TOML parsers are C/third-party code, nothing is symbolic here): presence of each of the 3 carriers (8 subsets) x key spelling x which present carrier is malformed x {library, CLI}",
           timeout=900, workers=14, must_cover=("effective-yaml", "effective-json", "effective-pyproject", "effective-None", "malformed")),
        Ob(name="K3c-every-section-through-every-carrier", engine="pathex", harness=h_carrier_sections,
           functions=["Linter.__init__/lint", "LinterConfigLoader.load", "config_parser.parse_config_file/parse_yaml/parse_json/_normalize_config_keys",
                      "pyproject loader", "every rule's _load_config / load_linter_config"],
           bounds="forked: %d linter sections x %d carriers (auto-discovered yaml/json/pyproject, explicit yaml/json file) x 2 spellings; "
                  "setting: enabled=false" % (len(LINTERS), len(SECTION_CARRIERS)),
           timeout=600, workers=12, must_cover=("ran",)),
        Ob(name="K3b-config-option-carrier", engine="pathex", harness=h_config_option,
           functions=["cli.utils.setup_base_orchestrator/load_config_file", "LinterConfigLoader.load", "linter commands with --config"],
           bounds="forked (nothing symbolic): --config file format (yaml, yml, json) x key spelling x presence of a project .thailint.yaml",
           timeout=300, workers=8, must_cover=("ran",)),
    ]
    return obs
