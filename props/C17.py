"""C17 — Rust safety linters flag exactly the risky calls outside test code."""
from __future__ import annotations

from vsym.pathex import And, Eq, Implies, Not, Or
from vsym.repo import mkctx
from vsym.runner import Ob

# function contexts: (name, lines-before, fn-attrs, lines-after, is_test_context, extra indent)
CONTEXTS = {
    "plain": ([], [], [], False, 0),
    "test-fn": ([], ["#[test]"], [], True, 0),
    "test-fn-2attrs": ([], ["#[test]", "#[ignore]"], [], True, 0),
    "test-fn-attr-after": ([], ["#[ignore]", "#[test]"], [], True, 0),
    "inline-fn": ([], ["#[inline]"], [], False, 0),
    "cfg-test-mod": (["#[cfg(test)]", "mod tests {"], [], ["}"], True, 1),
    "cfg-test-mod-test-fn": (["#[cfg(test)]", "mod tests {", "    use super::*;"], ["#[test]"], ["}"], True, 1),
    "plain-mod": (["mod util {"], [], ["}"], False, 1),
    "cfg-not-test-mod": (["#[cfg(not(test))]", "mod prod {"], [], ["}"], False, 1),
    "nested-mod-in-cfg-test": (["#[cfg(test)]", "mod tests {", "    mod fixtures {"], [], ["    }", "}"], True, 2),
    "impl-method": (["struct S;", "impl S {"], [], ["}"], False, 1),
    "helper-inside-test-fn": (["#[test]", "fn outer_test() {"], [], ["}"], True, 1),
}

# body statements: (text, linter, rule-suffix or None if it must NOT be flagged, needs async, option that switches it)
UNWRAP_CALLS = {
    "unwrap": ("let v = opt.unwrap();", "unwrap-call", None),
    "expect": ("let v = opt.expect(\"msg\");", "expect-call", "allow_expect"),
    "chain-unwrap": ("let v = make().next().unwrap();", "unwrap-call", None),
    "unwrap-or": ("let v = opt.unwrap_or(0);", None, None),
    "unwrap-or-default": ("let v = opt.unwrap_or_default();", None, None),
    "question-mark": ("let v = opt?;", None, None),
    "unwrap-in-macro-arguments": ("println!(\"{}\", opt.unwrap());", "unwrap-call", None),
}
CLONE_CALLS = {
    "in-for": (["for it in items.iter() {", "    out.push(it.clone());", "}"], 1, "clone-in-loop", "detect_clone_in_loop"),
    "in-while": (["while go {", "    out.push(name.clone());", "}"], 1, "clone-in-loop", "detect_clone_in_loop"),
    "in-loop": (["loop {", "    out.push(name.clone());", "    break;", "}"], 1, "clone-in-loop", "detect_clone_in_loop"),
    "chain": (["let c = name.clone().clone();", "consume(c);", "consume(name);"], 0, "clone-chain", "detect_clone_chain"),
    "chain-parenthesised": (["let c = (name.clone()).clone();", "consume(c);", "consume(name);"], 0, "clone-chain", "detect_clone_chain"),
    "let-unused-after": (["let copy = name.clone();", "consume(copy);"], 0, "unnecessary-clone", "detect_unnecessary_clone"),
    # one call that matches two patterns: the switches are independent, the higher-priority enabled one names it
    "let-unused-after-in-loop": (["for _i in 0..3 {", "    let copy = name.clone();", "    consume(copy);", "}"], 1, "BOTH:clone-in-loop|unnecessary-clone", None),
    "let-used-after": (["let copy = name.clone();", "consume(copy);", "consume(name);"], 0, None, None),
    # "afterwards" does not end with the innermost block
    "let-used-after-in-the-enclosing-block": (["if go {", "    let copy = name.clone();", "    consume(copy);", "}", "consume(name);"], 1, None, None),
    "let-unused-after-in-a-nested-block": (["if go {", "    let copy = name.clone();", "    consume(copy);", "}", "consume(other);"], 1, "unnecessary-clone", "detect_unnecessary_clone"),
    "argument": (["consume(name.clone());", "consume(name);"], 0, None, None),
}
BLOCKING_CALLS = {
    "std-fs": ("let s = std::fs::read_to_string(\"a.txt\");", "fs-in-async", "detect_fs_in_async"),
    "fs-short": ("let s = fs::read_to_string(\"a.txt\");", "fs-in-async", "detect_fs_in_async"),
    "std-sleep": ("std::thread::sleep(d);", "sleep-in-async", "detect_sleep_in_async"),
    "sleep-short": ("thread::sleep(d);", "sleep-in-async", "detect_sleep_in_async"),
    "std-net": ("let c = std::net::TcpStream::connect(\"a:1\");", "net-in-async", "detect_net_in_async"),
    "net-short": ("let c = TcpStream::connect(\"a:1\");", "net-in-async", "detect_net_in_async"),
    "net-mid": ("let c = net::TcpStream::connect(\"a:1\");", "net-in-async", "detect_net_in_async"),
    "std-fs-leading-colons": ("let s = ::std::fs::read_to_string(\"a.txt\");", "fs-in-async", "detect_fs_in_async"),
    "std-fs-turbofish": ("let s = std::fs::read::<&str>(\"a.txt\");", "fs-in-async", "detect_fs_in_async"),
    "tokio-fs": ("let s = tokio::fs::read_to_string(\"a.txt\").await;", None, None),
    "tokio-sleep": ("tokio::time::sleep(d).await;", None, None),
    "std-io-not-fs": ("let s = std::io::read_to_string(&mut src);", None, None),
    "tokio-net": ("let c = tokio::net::TcpStream::connect(\"a:1\").await;", None, None),
    "other-thread-fn": ("let h = std::thread::current();", None, None),
    "my-fs-module": ("let s = myfs::read_to_string(\"a.txt\");", None, None),
}
WRAPPERS = {"none": None, "spawn_blocking": ("tokio::task::spawn_blocking(move || {", "}).await;"),
            "block_in_place": ("tokio::task::block_in_place(|| {", "});"),
            # the same wrappers called with explicit type arguments / as a method of a runtime handle
            "spawn_blocking-turbofish": ("tokio::task::spawn_blocking::<_, ()>(move || {", "}).await;"),
            "spawn_blocking-method": ("handle.spawn_blocking(move || {", "}).await;")}


def render_fn(context, name, body, is_async=False):
    """Returns (lines, index of first body line within lines)."""
    before, attrs, after, is_test, ind = CONTEXTS[context]
    pad = "    " * ind
    lines = list(before)
    lines += [pad + a for a in attrs]
    lines.append(f"{pad}{'async ' if is_async else ''}fn {name}(opt: Option<i32>, items: Vec<String>, name: String, go: bool, d: std::time::Duration) {{")
    first = len(lines)
    lines += [pad + "    " + b for b in body]
    lines.append(pad + "}")
    lines += after
    return lines, first


def _check(rule_cls, key, content, cfg, before=None):
    rule = rule_cls()
    if before is not None:      # the same rule object has just analysed another file (one rule object serves a whole run)
        rule.check(mkctx("rust", before, {key: cfg}, path="/proj/src/earlier.rs"))
    return rule.check(mkctx("rust", content, {key: cfg}, path="/proj/src/lib.rs"))


def h_unwrap(ctx):
    from src.linters.unwrap_abuse.linter import UnwrapAbuseRule
    context = ctx.pick("context", tuple(CONTEXTS))
    call = ctx.pick("call", tuple(UNWRAP_CALLS))
    second = ctx.pick("second_fn", ("none", "plain-unwrap", "test-unwrap"))
    ait = ctx.bool("allow_in_tests")
    aex = ctx.bool("allow_expect")
    stmt, suffix, option = UNWRAP_CALLS[call]
    lines, first = render_fn(context, "target", ["let mut out: Vec<i32> = Vec::new();", stmt, "let _ = out;"])
    line_no = first + 2
    expected = []      # (line, suffix, condition)
    is_test = CONTEXTS[context][3]
    if suffix:
        cond = Not(And(is_test, ait))
        if option == "allow_expect":
            cond = And(cond, Not(aex))
        expected.append((line_no, suffix, cond))
    if second != "none":
        c2 = "plain" if second == "plain-unwrap" else "test-fn"
        l2, f2 = render_fn(c2, "other", ["let w = opt.unwrap();"])
        off = len(lines) + 1
        lines += [""] + l2
        expected.append((off + f2 + 1, "unwrap-call", Not(And(CONTEXTS[c2][3], ait))))
    content = "\n".join(lines) + "\n"
    vs = _check(UnwrapAbuseRule, ctx.pick("section_key", ("unwrap_abuse", "unwrap-abuse")), content,
                {"allow_in_tests": ait, "allow_expect": aex, "ignore": []})
    _judge(ctx, vs, expected, "unwrap-abuse.", content)


def _judge(ctx, vs, expected, prefix, content):
    nlines = content.count("\n")
    ctx.require("only-own-rule-ids", all(v.rule_id.startswith(prefix) for v in vs), got=[v.rule_id for v in vs])
    for line, suffix, cond in expected:
        mine = [v for v in vs if v.line == line]
        ctx.cover("flagged" if mine else "not-flagged")
        ctx.note("judged_source", content.split("\n")[line - 1].strip())
        ctx.note("n_reported_on_line", len(mine))
        ctx.require("call-reported-exactly-once-iff-risky-outside-tests", Eq(len(mine) == 1, cond),
                    line=line, got=[v.rule_id for v in mine], source=content.split("\n")[line - 1].strip())
        ctx.require("at-most-once", len(mine) <= 1, line=line)
        for v in mine:
            ctx.require("right-sub-rule", v.rule_id == prefix + suffix, got=v.rule_id, want=prefix + suffix)
    lines_expected = {l for l, _s, _c in expected}
    extra = [v for v in vs if v.line not in lines_expected]
    if not extra:
        ctx.cover("nothing-else")
    ctx.require("nothing-else-reported", not extra, extra=[(v.line, v.rule_id, content.split("\n")[v.line - 1].strip()) for v in extra])
    ctx.require("lines-in-range", all(1 <= v.line <= nlines for v in vs))


_CLONE_SWITCH = {"clone-in-loop": "detect_clone_in_loop", "clone-chain": "detect_clone_chain", "unnecessary-clone": "detect_unnecessary_clone"}


def h_clone(ctx):
    from src.linters.clone_abuse.linter import CloneAbuseRule
    context = ctx.pick("context", tuple(CONTEXTS))
    call = ctx.pick("call", tuple(CLONE_CALLS))
    ait = ctx.bool("allow_in_tests")
    flags = {k: ctx.bool(k) for k in ("detect_clone_in_loop", "detect_clone_chain", "detect_unnecessary_clone")}
    body, rel, suffix, option = CLONE_CALLS[call]
    lines, first = render_fn(context, "target", ["let mut out: Vec<String> = Vec::new();"] + list(body) + ["let _ = out;"])
    line_no = first + 2 + rel
    expected = []
    is_test = CONTEXTS[context][3]
    if suffix and suffix.startswith("BOTH:"):
        first_p, second_p = suffix[5:].split("|")
        on1, on2 = flags[_CLONE_SWITCH[first_p]], flags[_CLONE_SWITCH[second_p]]
        expected.append((line_no, first_p if on1 else second_p, And(Not(And(is_test, ait)), Or(on1, on2))))
    elif suffix:
        expected.append((line_no, suffix, And(Not(And(is_test, ait)), flags[option])))
    content = "\n".join(lines) + "\n"
    cfg = dict(flags, allow_in_tests=ait, ignore=[])
    vs = _check(CloneAbuseRule, "clone_abuse", content, cfg)
    _judge(ctx, vs, expected, "clone-abuse.", content)


def h_blocking(ctx):
    from src.linters.blocking_async.linter import BlockingAsyncRule
    context = ctx.pick("context", tuple(CONTEXTS))
    call = ctx.pick("call", tuple(BLOCKING_CALLS))
    ctx.note("call", call)
    is_async = ctx.flag("async_fn")
    wrapper = ctx.pick("wrapper", tuple(WRAPPERS))
    imports = ctx.flag("use_imports")
    ait = ctx.bool("allow_in_tests")
    flags = {k: ctx.bool(k) for k in ("detect_fs_in_async", "detect_sleep_in_async", "detect_net_in_async")}
    stmt, suffix, option = BLOCKING_CALLS[call]
    if call == "net-short" and not imports:
        ctx.assume(False)     # a bare TcpStream::connect without `use std::net::TcpStream` could be tokio's: not judged
    tokio_import = call == "net-short" and imports and ctx.flag("type_imported_from_tokio_instead")
    body = [stmt] if WRAPPERS[wrapper] is None else [WRAPPERS[wrapper][0], "    " + stmt, WRAPPERS[wrapper][1]]
    rel = 0 if WRAPPERS[wrapper] is None else 1
    lines, first = render_fn(context, "target", ["let mut out: Vec<String> = Vec::new();"] + body + ["let _ = out;"], is_async)
    head = ["use std::fs;", "use std::thread;", "use std::net;", "use std::net::TcpStream;", ""] if imports else []
    if tokio_import:
        head = ["use std::fs;", "use std::thread;", "use tokio::net::TcpStream;", ""]
        suffix = None         # tokio's TcpStream is not a blocking API
    line_no = len(head) + first + 2 + rel
    expected = []
    is_test = CONTEXTS[context][3]
    if suffix:
        risky = is_async and WRAPPERS[wrapper] is None
        expected.append((line_no, suffix, And(risky, Not(And(is_test, ait)), flags[option])))
    content = "\n".join(head + lines) + "\n"
    before = None
    if call == "net-short" and ctx.flag("same_rule_object_saw_a_file_with_the_other_import_first"):
        other_import = "use std::net::TcpStream;" if tokio_import else "use tokio::net::TcpStream;"
        before = other_import + "\n\nasync fn earlier() {\n    let s = TcpStream::connect(\"127.0.0.1:80\");\n    drop(s);\n}\n"
    vs = _check(BlockingAsyncRule, "blocking_async", content, dict(flags, allow_in_tests=ait, ignore=[]), before)
    _judge(ctx, vs, expected, "blocking-async.", content)


# ------------------------------------------------------------------ K3: context walks with symbolic node kinds
ATTR_TEXTS = ("#[test]", "#[cfg(test)]", "#[inline]", "#[cfg(not(test))]", "#[derive(Debug)]", "#[tokio::test]",
              "#[cfg_attr(test, derive(Debug))]", "#[doc = \"see the test suite\"]", "#[cfg( test )]")


def h_context_kinds(ctx, part="test", depth=3):
    from vsym.nodes import Duck
    from vsym.pathex import If
    from vsym.symkind import SKind, kind_table, symbolic_tables
    import src.linters.clone_abuse.rust_analyzer as clone_mod
    from src.analyzers import rust_context
    table = kind_table("rust")
    kinds = [SKind(ctx, f"ancestor{i}_kind", table) for i in range(depth)]
    has_attr = [ctx.flag(f"ancestor{i}_has_preceding_sibling") if part == "test" else False for i in range(depth)]
    attr_kinds = [SKind(ctx, f"sibling{i}_kind", table) if has_attr[i] else None for i in range(depth)]
    # the outermost of three ancestors takes the test-marking texts and two plain ones (cost)
    attr_texts = [ctx.pick(f"sibling{i}_text", ATTR_TEXTS if i < 2 else ATTR_TEXTS[:4] + ATTR_TEXTS[-1:]) if has_attr[i] else None for i in range(depth)]
    call = Duck("call_expression", "x.clone()", start=(9, 8))
    below, below_sibs = call, []
    for i in range(depth + 1):      # ancestor0 is the innermost; the extra round builds the file root
        kind = kinds[i] if i < depth else "source_file"
        anc = Duck(kind, "", below_sibs + [below])      # attribute items are preceding siblings inside the parent
        below = anc
        below_sibs = [Duck(attr_kinds[i], attr_texts[i])] if (i < depth and has_attr[i]) else []
    if part == "loop":
        # ---- loop context (clone-abuse)
        with symbolic_tables(clone_mod, clone_mod.RustCloneAnalyzer):
            got_loop = clone_mod.RustCloneAnalyzer()._is_inside_loop(call)
        want_loop = Or(*[k.is_one_of(("for_expression", "while_expression", "loop_expression")) for k in kinds])
        ctx.cover("in-loop" if got_loop else "not-in-loop")
        ctx.require("loop-context-iff-an-ancestor-is-a-loop", Eq(got_loop, want_loop))
        return
    # ---- test context
    with symbolic_tables(rust_context):
        got_test = rust_context.is_inside_test(call)

    def attr_is(i, texts):
        if not has_attr[i]:
            return False
        return And(attr_kinds[i] == "attribute_item", attr_texts[i] in texts)
    want_test = Or(*[Or(And(kinds[i] == "function_item", attr_is(i, ("#[test]", "#[tokio::test]", "#[cfg(test)]", "#[cfg( test )]"))),
                        And(kinds[i] == "mod_item", attr_is(i, ("#[cfg(test)]", "#[cfg( test )]")))) for i in range(depth)])
    for i in range(depth):     # attribute spellings the documentation does not speak about, on the item kinds that matter
        if has_attr[i] and attr_texts[i] in ("#[tokio::test]",):
            pass
    ctx.cover("in-test" if got_test else "not-in-test")
    ctx.require("test-context-iff-enclosing-test-fn-or-cfg-test-mod", Eq(got_test, want_test),
                attrs=[t for t in attr_texts if t])


def h_loop_kinds(ctx):
    return h_context_kinds(ctx, "loop")


ASSUMPTIONS = (
    "test code = inside a #[test] function or a #[cfg(test)] module (at any nesting depth), as documented",
    "short forms (fs::read_to_string, thread::sleep, TcpStream::connect) are flagged as the std forms with or without the matching `use` line (documentation lists both)",
)


def obligations(tier):
    common = dict(timeout=600, workers=14, must_cover=("flagged", "not-flagged", "nothing-else"))
    return [
        Ob(name="K4-unwrap-abuse", engine="pathex", harness=h_unwrap,
           functions=["UnwrapAbuseRule.check/_should_analyze/_build_violations/_should_skip_call", "RustUnwrapAnalyzer.find_unwrap_calls",
                      "rust_context.is_inside_test/has_test_attribute/has_cfg_test_attribute", "UnwrapAbuseConfig.from_dict"],
           bounds="allow_in_tests, allow_expect symbolic booleans; forked: %d function contexts x %d call forms x second function (none/plain/test) x section key spelling" % (len(CONTEXTS), len(UNWRAP_CALLS)),
           **common),
        Ob(name="K4-clone-abuse", engine="pathex", harness=h_clone,
           functions=["CloneAbuseRule.check/_should_skip_call", "RustCloneAnalyzer.find_clone_calls/_classify_clone/_is_inside_loop/_is_chained_clone/_is_unnecessary_clone",
                      "rust_context.is_inside_test", "CloneAbuseConfig.from_dict"],
           bounds="allow_in_tests and the three detect_* switches symbolic booleans; forked: %d contexts x %d clone placements" % (len(CONTEXTS), len(CLONE_CALLS)),
           **common),
        Ob(name="K4-blocking-async", engine="pathex", harness=h_blocking,
           functions=["BlockingAsyncRule.check/_should_skip_call", "RustBlockingAsyncAnalyzer.find_blocking_calls/_classify_blocking_pattern/_is_in_async_context/_is_inside_blocking_wrapper",
                      "rust_context.is_inside_test/is_async_function", "BlockingAsyncConfig.from_dict"],
           bounds="allow_in_tests and the three detect_* switches symbolic booleans; forked: %d contexts x %d call forms x async/sync x wrapper (none/spawn_blocking/block_in_place) x with/without use lines" % (len(CONTEXTS), len(BLOCKING_CALLS)),
           **common),
        Ob(name="K3b-loop-context-symbolic-kinds", engine="pathex", harness=h_loop_kinds,
           functions=["RustCloneAnalyzer._is_inside_loop"],
           bounds="3 ancestors whose kinds are solver variables over all 355 kinds of the Rust grammar (symbolic to the end)",
           timeout=300, workers=14, must_cover=("in-loop", "not-in-loop"),
           stubs=("duck-typed tree-sitter nodes", "SymSet wrapper around clone_abuse._LOOP_NODE_TYPES")),
        Ob(name="K3-context-walks-symbolic-kinds", engine="pathex",
           harness=(lambda ctx: h_context_kinds(ctx, "test", 2)) if tier == "quick" else h_context_kinds,
           functions=["rust_context.is_inside_test/_is_test_context/has_test_attribute/has_cfg_test_attribute"],
           bounds=("2" if tier == "quick" else "3") + " ancestors whose kinds (and the kinds of their preceding siblings) are solver variables over all 355 kinds of the Rust grammar (symbolic to the end); "
                  "forked: presence of a preceding sibling and its text from 6 attribute spellings",
           timeout=300 if tier == "quick" else 1500, workers=14, must_cover=("in-test", "not-in-test"), max_paths=400000 if tier == "quick" else 1500000,
           stubs=("duck-typed tree-sitter nodes", "SymSet wrappers around the kind tables of rust_context")),
    ]
