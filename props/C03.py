"""C03 — DRY findings are sound, mutual and complete (full pipeline, native sqlite)."""
from __future__ import annotations

import atexit
import re
import shutil
import tempfile
from pathlib import Path

from vsym.pathex import And, Eq, Implies, Not, Or
from vsym.runner import Ob

POOL = (
    "total = compute_total(order, region)",
    "audit_log.append(order.identifier)",
    "discount = lookup_discount(customer, total)",
    "shipping = estimate_shipping(order.weight, region)",
    "invoice = build_invoice(total, discount, shipping)",
    "notify_customer(customer, invoice)",
    "ledger.record(invoice, region)",
    "archive(order, invoice)",
)
JS_POOL = tuple(s + ";" for s in (
    "total = computeTotal(order, region)",
    "auditLog.push(order.identifier)",
    "discount = lookupDiscount(customer, total)",
    "shipping = estimateShipping(order.weight, region)",
    "invoice = buildInvoice(total, discount, shipping)",
    "notifyCustomer(customer, invoice)",
    "ledger.record(invoice, region)",
    "archive(order, invoice)",
))


def _cut_comment(line, marker):
    """Cut at the first comment marker that is not inside a string literal."""
    quote, i = None, 0
    while i < len(line):
        ch = line[i]
        if quote:
            if ch == "\\":
                i += 2
                continue
            if ch == quote:
                quote = None
        elif ch in "\"'`":
            quote = ch
        elif line.startswith(marker, i):
            return line[:i]
        i += 1
    return line


def norm(line, lang):
    if lang != "python":
        line = re.sub(r"/\*.*?\*/", "", line)          # a block comment closed on the same line
    return " ".join(_cut_comment(line, "#" if lang == "python" else "//").split())


def norm_block(lines, lang):
    """Normalised code lines of a slice (comment-only lines, block comments and blank lines dropped)."""
    out, inside = [], False
    for l in lines:
        if inside:
            if "*/" in l:
                inside = False
            continue
        if lang != "python" and l.strip().startswith("/*") and "*/" not in l:
            inside = True
            continue
        x = norm(l, lang)
        if x:
            out.append(x)
    return out


def build_file(lang, tag, places, r, style, run_at_end=False):
    """places: list of offsets (number of unique filler statements before each planted run).
    Returns (lines, [(first_line, last_line)] of each planted occurrence)."""
    py = lang == "python"
    pool = POOL if py else JS_POOL
    end = "" if py else ";"
    ind = "    " if py else "  "
    lines = [f"def handler_{tag}(order, customer, region, state):" if py else
             f"function handler{tag}(order, customer, region, state) {{"]
    if py and style in ("method", "async-method"):
        # the statements live in a method of a class (all methods coroutines for async-method)
        lines = [f"class Service_{tag}:", f"    {'async ' if style == 'async-method' else ''}def handle(self, order, customer, region, state):"]
        ind = "        "
    top = style == "exported-declarations" and not py
    if top:
        # a module of top-level statements whose declarations are exported: ordinary code, not imports
        lines, ind = [f"const state_{tag} = setup(\"{tag}\");"], ""
    footer = None
    if not py and style in ("method", "async-method"):
        # the statements live in a class: in an arrow-function property (method) or an async method (async-method)
        lines = [f"class Service{tag} {{", "  handle = (order, customer, region, state) => {" if style == "method" else "  async handle(order, customer, region, state) {"]
        ind, footer = "    ", ["  };" if style == "method" else "  }", "}"]
    occ = []
    uid = 0
    for k, off in enumerate(places):
        for _ in range(off):
            lines.append(f"{ind}{'export const ' if top else ''}{tag}_step_{uid} = {tag}_stage_{uid}(state, {uid + 11}){end}")
            uid += 1
        first = len(lines) + 1
        extra = ind if (style in ("indented", "callback") and k == 0) else ""
        if extra:
            if style == "callback" and not py:
                # the run is the body of a function passed to a multi-line call (the usual JS callback shape)
                lines.append(f"{ind}register(\"{tag}\", function (payload) {{")
            else:
                lines.append(f"{ind}if state:" if py else f"{ind}if (state) {{")
            first = len(lines) + 1
        for i in range(r):
            if style == "commented" and i == 1:
                lines.append(f"{ind}{extra}{'#' if py else '//'} explanatory note {tag}")
                lines.append("")
            if style == "block-commented" and i == 1:
                lines.append(f"{ind}{extra}{'# block note ' + tag if py else '/* block note ' + tag + ' */'}")
                if not py:
                    lines += [f"{ind}{extra}/* a note", f"{ind}{extra}   over two lines {tag} */"]
            if style == "commented-late" and r >= 3 and i == r - 2:
                lines += [f"{ind}{extra}{'#' if py else '//'} note {n} {tag}" for n in (1, 2, 3)]
            s = pool[i]
            if style == "spaced" and i % 2 == 0:
                s = s.replace(" = ", "  =  ").replace(", ", ",   ")
            if style == "trailing-comment" and i == 0:
                s = s + ("  # note " if py else "  // note ") + tag
            if top and " = " in s:
                s = "export const " + s
            lines.append(f"{ind}{extra}{s}")
        last = len(lines)
        if extra and not py:
            lines.append(f"{ind}}});" if style == "callback" else f"{ind}}}")
        occ.append((first, last))
        if run_at_end and py and k == len(places) - 1:
            return lines, occ          # the planted run is the very end of the file
        lines.append(f"{ind}{'export const ' if top else ''}{tag}_mark_{k} = {tag}_finish_{k}(state, {k + 31}){end}")
    if top:
        return lines, occ
    lines.append(f"{ind}return state" + end)
    if footer:
        lines += footer
    elif not py:
        lines.append("}")
    return lines, occ


_MSG = re.compile(r"Duplicate code \((\d+) lines, (\d+) occurrences\)(?:\. Also found in: (.*))?$")


def make_h(tier):
    quick = tier == "quick"

    def h(ctx):
        from src.orchestrator.core import Orchestrator
        import src.linter_config.ignore as ign
        lang = ctx.pick("lang", ("python", "typescript", "javascript"))
        ext = {"python": ".py", "typescript": ".ts", "javascript": ".js"}[lang]
        w = ctx.pick("min_duplicate_lines", (2, 3, 4) if quick else (2, 3, 4, 5))
        r = ctx.pick("run_length", (1, 2, 3, 4, 6) if quick else (1, 2, 3, 4, 5, 6, 7))
        layout = ctx.pick("layout", ("A+B", "A+A", "A+B+C", "A+A+B", "A-only-once") if quick else
                          ("A+B", "A+A", "A+B+C", "A+A+B", "A-only-once", "A+A+A", "A+B+B+C"))
        style = ctx.pick("style", ("plain", "indented", "callback", "method", "async-method", "commented", "block-commented", "commented-late", "spaced", "trailing-comment", "exported-declarations"))
        if style == "exported-declarations" and lang == "python":
            ctx.assume(False)
        off = ctx.pick("offset", (0, 1, 3))
        at_end = ctx.flag("run_at_end_of_last_file") if lang == "python" else False
        minocc = ctx.int("min_occurrences", 1)
        decoys = ctx.flag("decoy_files_with_same_lines_in_other_order") if (style == "plain" or not quick) else False
        imports = ctx.flag("every_file_starts_with_the_same_multi_line_import") if (style == "plain" and not decoys and (off == 0 or not quick)) else False
        naming = ctx.pick("file_naming", ("distinct-names-one-directory", "same-name-in-different-directories")) \
            if (style in ("plain", "method") or (not quick and style in ("indented", "callback", "commented"))) else "distinct-names-one-directory"
        files = {}
        for t in layout.replace("-only-once", "").split("+"):
            files[t] = files.get(t, 0) + 1
        d = Path(tempfile.mkdtemp(prefix="c03-"))
        try:
            (d / ".git").mkdir()
            occs = {}
            texts = {}
            for i, (t, cnt) in enumerate(sorted(files.items())):
                places = [off + i] + [2] * (cnt - 1)
                L, occ = build_file(lang, t.lower(), places, r, style if (i == 0 or style == "exported-declarations") else "plain",
                                    run_at_end=at_end and i == len(files) - 1)
                if imports:
                    head = ["from shared.lib import (", "    alpha,", "    beta,", "    gamma,", ")"] if lang == "python" else \
                        ["import {", "  alpha,", "  beta,", "  gamma,", "} from \"./lib\";"]
                    L = head + L
                    occ = [(a + len(head), b + len(head)) for a, b in occ]
                p = d / f"mod_{t.lower()}{ext}"
                if naming != "distinct-names-one-directory":
                    p = d / f"pkg_{t.lower()}" / f"helpers{ext}"
                    p.parent.mkdir()
                p.write_text("\n".join(L) + "\n")
                occs[str(p)] = occ
                texts[str(p)] = L
            decoy_paths = []
            if decoys:
                # not duplicates: the run's statements in reverse order, and blocks that differ in a doubled line
                py = lang == "python"
                pool = POOL if py else JS_POOL
                endc, ind = ("", "    ") if py else (";", "  ")
                # lines that differ only after the OTHER language's comment marker (floor division / private names)
                diff_y = ["half = count // 2", "rest = width // 3", "tail = depth // 5", "last = span // 11"] if py else \
                    ["this.#alpha = compute(1);", "this.#beta = compute(2);", "this.#gamma = compute(3);", "this.#delta = compute(4);"]
                diff_z = ["half = count // 7", "rest = width // 9", "tail = depth // 13", "last = span // 17"] if py else \
                    ["this.#omega = compute(1);", "this.#psi = compute(2);", "this.#chi = compute(3);", "this.#phi = compute(4);"]
                # ... and lines that differ only inside a string literal that contains the language's OWN comment marker
                diff_y += [f"y_gap2 = y_stage(state, 74){endc}"] + (["color = \"#ff0000\"", "label = \"#title\"", "anchor = \"#top\"", "mark = '#a'"] if py else
                           ["const u1 = \"http://alpha.example/a\";", "const u2 = \"http://alpha.example/b\";", "const u3 = 'http://alpha.example/c';", "const u4 = `http://alpha.example/d`;"])
                diff_z += [f"z_gap2 = z_stage(state, 75){endc}"] + (["color = \"#00ff00\"", "label = \"#footer\"", "anchor = \"#end\"", "mark = '#b'"] if py else
                           ["const u1 = \"http://beta.example/a\";", "const u2 = \"http://beta.example/b\";", "const u3 = 'http://beta.example/c';", "const u4 = `http://beta.example/d`;"])
                for tag, body in (("y", list(reversed(pool[:max(r, 2)])) + [f"y_gap = y_stage(state, 71){endc}",
                                        f"y_twice = y_double(state, 5){endc}", f"y_twice = y_double(state, 5){endc}", pool[-1],
                                        f"y_sep = y_stage(state, 72){endc}"] + diff_y),
                                  ("z", [f"z_twice = z_double(state, 9){endc}", f"z_twice = z_double(state, 9){endc}", pool[-1],
                                         f"z_sep = z_stage(state, 73){endc}"] + diff_z)):
                    L = [f"def handler_{tag}(order, customer, region, state):" if py else f"function handler{tag}(order, customer, region, state) {{"]
                    L += [ind + b for b in body] + [f"{ind}{tag}_end = {tag}_close(state, 3){endc}", f"{ind}return state{endc}"] + ([] if py else ["}"])
                    p = d / f"mod_{tag}{ext}"
                    p.write_text("\n".join(L) + "\n")
                    occs[str(p)] = []
                    texts[str(p)] = L
                    decoy_paths.append(str(p))
            m = sum(len(o) for o in occs.values())
            ign.clear_ignore_parser_cache()
            cfg = {"dry": {"enabled": True, "min_duplicate_lines": w, "min_occurrences": minocc,
                           "min_duplicate_tokens": 1, "detect_duplicate_constants": False}}
            # the threshold may be given for the files' language only; another language's section never applies
            where = ctx.pick("min_occurrences_given_in", ("section", "own-language-section", "section-next-to-another-language")) \
                if (style == "plain" and not decoys and not imports and (off == 0 or not quick)) else "section"
            sibling = {"python": "typescript", "typescript": "javascript", "javascript": "typescript"}[lang]
            if where == "own-language-section":
                cfg["dry"]["min_occurrences"] = 1 + m         # would silence everything if it applied
                cfg["dry"][lang] = {"min_occurrences": minocc}
            elif where == "section-next-to-another-language":
                cfg["dry"][sibling] = {"min_occurrences": 1 + m}
            o = Orchestrator(project_root=d, config=cfg)
            vs = [v for v in o.lint_files([Path(p) for p in sorted(occs)]) if v.rule_id == "dry.duplicate-code"]
        finally:
            shutil.rmtree(d, True)
            ign.clear_ignore_parser_cache()
        ctx.note("planted_places", m)
        ctx.cover("reported" if vs else "silent")
        in_decoy = [(Path(v.file_path).name, v.line, v.message[:70]) for v in vs if v.file_path in decoy_paths]
        ctx.require("no-violation-in-a-file-without-a-shared-run", not in_decoy, got=in_decoy[:3], w=w, r=r)
        spans = []
        for v in vs:
            mm = _MSG.match(v.message)
            ctx.require("message-format", mm is not None, msg=v.message)
            if not mm:
                return
            n, k, also = int(mm.group(1)), int(mm.group(2)), mm.group(3)
            locs = re.findall(r"([^,\s][^,]*?):(\d+)-(\d+)", also or "")
            spans.append((v.file_path, v.line, v.line + n - 1))
            ctx.require("names-another-location", len(locs) >= 1, msg=v.message)
            mine = norm_block(texts[v.file_path][v.line - 1:v.line - 1 + n], lang)
            for path, a, b in locs:
                path = path.strip()
                theirs = norm_block(texts.get(path, [])[int(a) - 1:int(b)], lang)
                ctx.require("named-location-holds-identical-code", theirs == mine and len(mine) > 0,
                            block=mine[:3], other=theirs[:3], at=f"{Path(path).name}:{a}-{b}")
            ctx.require("count-is-number-of-distinct-places", k == 1 + len(locs) and k == m, msg=v.message, planted=m)
            ctx.require("count-meets-min-occurrences", k >= minocc, msg=v.message)
        # mutual: every named location is overlapped by a reported violation in that file
        for v in vs:
            mm = _MSG.match(v.message)
            for path, a, b in re.findall(r"([^,\s][^,]*?):(\d+)-(\d+)", mm.group(3) or ""):
                hit = any(f == path.strip() and s <= int(b) and int(a) <= e for f, s, e in spans)
                ctx.require("named-location-is-itself-reported", hit, at=f"{Path(path).name}:{a}-{b}")
        # completeness / silence
        should = And(r >= w, m >= 2, minocc <= m)
        if ctx.symbolic:
            should_c = bool(should)
        else:
            should_c = bool(should)
        if should_c:
            for f, occ in occs.items():
                for (a, b) in occ:
                    hit = any(ff == f and s <= b and a <= e for ff, s, e in spans)
                    ctx.require("every-occurrence-is-covered", hit, file=Path(f).name, lines=[a, b], w=w, r=r)
        else:
            ctx.require("no-violation-without-a-shared-run", not vs, got=[(Path(v.file_path).name, v.line, v.message[:60]) for v in vs],
                        w=w, r=r, planted=m)
    return h


def h_targets(ctx):
    """The same files given to the command as one directory, as several directories, as files, or mixed:
    every occurrence of a shared run is covered whichever way the targets are split."""
    import json
    import os
    import src.linter_config.ignore as ign
    from click.testing import CliRunner
    from src.cli_main import cli
    lang = ctx.pick("lang", ("python", "typescript"))
    ext = ".py" if lang == "python" else ".ts"
    split = ctx.pick("targets", ("project-dir", "two-dirs", "file+dir", "dir+file", "two-files", "dir-and-file-inside-it"))
    d = Path(tempfile.mkdtemp(prefix="c03t-"))
    cwd0 = os.getcwd()
    try:
        (d / ".git").mkdir()
        (d / ".thailint.yaml").write_text("dry:\n  enabled: true\n  min_duplicate_lines: 3\n  min_duplicate_tokens: 1\n  detect_duplicate_constants: false\n")
        occ = {}
        for sub, tag in (("one", "a"), ("two", "b")):
            (d / sub).mkdir()
            L, o = build_file(lang, tag, [1 if tag == "a" else 2], 4, "plain")
            (d / sub / (tag + ext)).write_text("\n".join(L) + "\n")
            occ[sub + "/" + tag + ext] = o
        targets = {"project-dir": ["."], "two-dirs": ["one", "two"], "file+dir": ["one/a" + ext, "two"], "dir+file": ["one", "two/b" + ext],
                   "two-files": ["one/a" + ext, "two/b" + ext], "dir-and-file-inside-it": [".", "one/a" + ext]}[split]
        os.chdir(d)
        ign.clear_ignore_parser_cache()
        r = CliRunner().invoke(cli, ["dry", "--format", "json"] + targets)
    finally:
        os.chdir(cwd0)
        shutil.rmtree(d, True)
        ign.clear_ignore_parser_cache()
    ctx.require("run-completes", r.exit_code in (0, 1), code=r.exit_code, out=r.output[-200:])
    if r.exit_code not in (0, 1):
        return
    doc = json.loads(r.output[r.output.index("{"):])
    got = [(str(Path(v["file_path"])).replace(str(d) + os.sep, ""), v["line"]) for v in doc["violations"]]
    ctx.cover("reported" if got else "silent")
    for rel, o in occ.items():
        for (a, b) in o:
            hits = [g for g in got if g[0].endswith(rel) and a <= g[1] <= b]
            ctx.require("every-occurrence-is-covered-however-the-targets-are-split", len(hits) >= 1, file=rel, lines=[a, b], targets=targets, got=got)
            ctx.require("a-file-reached-through-two-targets-is-reported-once", len(hits) <= 2, file=rel, targets=targets, got=got)
    ctx.require("no-finding-reported-twice", len(got) == len(set(got)), got=got, targets=targets)


# ------------------------------------------------------------------ K1: interval logic with symbolic line numbers
def h_intervals(ctx):
    """De-overlapping of rolling-hash windows and of violations, with every start line a solver integer."""
    from src.core.types import Violation
    from src.linters.dry.cache import CodeBlock
    from src.linters.dry.deduplicator import ViolationDeduplicator
    from src.linters.dry.violation_builder import DRYViolationBuilder
    from src.linters.dry.violation_filter import ViolationFilter
    from vsym.pathex import If
    n = ctx.pick("blocks", (1, 2, 3))
    w = ctx.int("window_lines", 1, 6)
    files = [ctx.pick(f"file{i}", ("a.py", "b.py")) if i else "a.py" for i in range(n)]
    starts = [ctx.int(f"start{i}", 1, 40) for i in range(n)]
    for i in range(n):
        for j in range(i):
            if files[i] == files[j]:
                ctx.assume(starts[i] != starts[j])       # the same window is stored once
    blocks = [CodeBlock(file_path=Path("/p/" + files[i]), start_line=starts[i], end_line=starts[i] + w - 1, snippet="s", hash_value=7)
              for i in range(n)]
    dd = ViolationDeduplicator()
    kept = dd.deduplicate_blocks(blocks)
    kept_ids = {id(b) for b in kept}
    ctx.cover("dropped-some" if len(kept) < n else "kept-all")

    def overlap(x, y):
        return And(x.file_path == y.file_path, x.start_line <= y.end_line, y.start_line <= x.end_line)
    for i, a in enumerate(kept):
        for b in kept[:i]:
            ctx.require("kept-blocks-are-pairwise-disjoint", Not(overlap(a, b)))
    for b in blocks:
        if id(b) not in kept_ids:
            ctx.require("every-dropped-block-overlaps-a-kept-one", Or(*[overlap(b, k) for k in kept]))
    # greedy by start line is optimal for equal-length windows: no dropped block is disjoint from ALL kept blocks,
    # and the earliest block of every file is always kept
    for f in set(files):
        mine = [b for b in blocks if b.file_path.name == f]
        first_kept = [k for k in kept if k.file_path.name == f]
        ctx.require("some-block-kept-per-file", len(first_kept) >= 1)
        for b in mine:
            ctx.require("earliest-block-of-a-file-is-kept", Or(*[And(k.start_line <= b.start_line) for k in first_kept]))
    # message: count and line span round trip
    vb = DRYViolationBuilder()
    v = vb.build_violation(kept[0], kept, "dry.duplicate-code")
    ctx.require("violation-starts-at-block-start", Eq(v.line, kept[0].start_line))
    ctx.require("also-found-in-lists-the-other-kept-blocks", v.message.count(".py:") == len(kept) - 1, msg=v.message)
    wc = int(w)      # the line count travels through the message text: enumerated by forking
    v2 = vb.build_violation(CodeBlock(Path("/p/a.py"), 5, 5 + wc - 1, "s", 7), kept, "dry.duplicate-code")
    ctx.require("line-count-round-trips-through-the-message", ViolationFilter()._extract_line_count(v2.message) == wc, msg=v2.message)
    ctx.require("occurrence-count-is-number-of-kept-blocks", f"{len(kept)} occurrences" in v2.message, msg=v2.message)
    # violation-level overlap filter on symbolic lines
    vf = ViolationFilter()
    la, lb = ctx.int("viol_line_a", 1, 60), ctx.int("viol_line_b", 1, 60)
    ctx.assume(la <= lb)
    msg = "Duplicate code (%d lines, 2 occurrences)" % wc
    va = Violation("dry.duplicate-code", "/p/a.py", la, 1, msg)
    vbb = Violation("dry.duplicate-code", "/p/a.py", lb, 1, msg)
    out = vf.filter_overlapping([va, vbb])
    ctx.require("later-violation-kept-iff-it-does-not-overlap-the-earlier", Eq(len(out) == 2, lb >= la + wc))


def h_periodic(ctx):
    """A run made of ONE statement repeated w+1 .. 2w-1 times: its windows overlap inside a file, so each
    file holds exactly one non-overlapping place."""
    from src.orchestrator.core import Orchestrator
    import src.linter_config.ignore as ign
    lang = ctx.pick("lang", ("python", "typescript"))
    ext = {"python": ".py", "typescript": ".ts"}[lang]
    w = ctx.pick("min_duplicate_lines", (2, 3, 4))
    extra = ctx.pick("extra_repeats", (1, 2))
    ctx.assume(extra < w)
    r = w + extra
    nfiles = ctx.pick("files_with_the_run", (1, 2, 3))
    minocc = ctx.int("min_occurrences", 1)
    py = lang == "python"
    stmt = POOL[1] if py else JS_POOL[1]
    ind = "    " if py else "  "
    end = "" if py else ";"
    d = Path(tempfile.mkdtemp(prefix="c03p-"))
    try:
        (d / ".git").mkdir()
        paths = []
        for i in range(nfiles):
            t = "abc"[i]
            L = [f"def handler_{t}(order, audit_log, state):" if py else f"function handler{t}(order, auditLog, state) {{"]
            L += [f"{ind}{t}_step_{k} = {t}_stage_{k}(state, {k + 11}){end}" for k in range(i + 1)]
            L += [ind + stmt] * r
            L += [f"{ind}{t}_mark = {t}_finish(state, 31){end}", f"{ind}return state{end}"] + ([] if py else ["}"])
            p = d / f"mod_{t}{ext}"
            p.write_text("\n".join(L) + "\n")
            paths.append(p)
        ign.clear_ignore_parser_cache()
        cfg = {"dry": {"enabled": True, "min_duplicate_lines": w, "min_occurrences": minocc,
                       "min_duplicate_tokens": 1, "detect_duplicate_constants": False}}
        vs = [v for v in Orchestrator(project_root=d, config=cfg).lint_files(paths) if v.rule_id == "dry.duplicate-code"]
    finally:
        shutil.rmtree(d, True)
        ign.clear_ignore_parser_cache()
    ctx.cover("reported" if vs else "silent")
    should = bool(And(nfiles >= 2, minocc <= nfiles))
    if not should:
        ctx.require("no-violation-without-enough-distinct-places", not vs, places=nfiles, w=w, repeats=r,
                    got=[(Path(v.file_path).name, v.line, v.message[:70]) for v in vs])
        return
    ctx.require("every-file-with-the-run-is-reported", {v.file_path for v in vs} == {str(p) for p in paths})
    for v in vs:
        mm = _MSG.match(v.message)
        ctx.require("message-format", mm is not None, msg=v.message)
        if mm:
            ctx.require("count-is-number-of-distinct-places", int(mm.group(2)) == nfiles, msg=v.message, places=nfiles)
            ctx.require("names-another-location", bool(mm.group(3)), msg=v.message)


ASSUMPTIONS = (
    "statement pool: ordinary one-line call/assignment statements, every filler statement unique; min_duplicate_tokens=1 and duplicate-constants detection off so only the line-run criterion is judged",
    "hash collisions are assumed away (cannot be exhibited against the real build)",
    "'covered' is read as: the occurrence's line range overlaps a reported block",
)


def obligations(tier):
    return [
        Ob(name="K3-dry-pipeline-on-planted-runs", engine="pathex", harness=make_h(tier),
           functions=["DRYRule.check/finalize", "FileAnalyzer.analyze", "PythonDuplicateAnalyzer.analyze/_tokenize_with_line_numbers/_rolling_hash_with_tracking/_filter_valid_blocks",
                      "TypeScriptDuplicateAnalyzer.analyze", "token_hasher.*", "DuplicateStorage/cache (sqlite)", "ViolationGenerator.generate_violations/_collect_violations/_meets_min_occurrences",
                      "ViolationDeduplicator.*", "ViolationFilter.*", "DRYViolationBuilder.*"],
           bounds="min_occurrences unbounded integer >= 1 (symbolic to the end); forked: language (3), window 2..%d, run length 1..%d, file layouts (%s), "
                  "style of the first occurrence (plain/indented/commented+blank/extra spaces/trailing comment), offset, "
                  "file naming (distinct names in one directory / one file name in different directories)"
                  % ((4, 5, "2-3 files, 1-3 places") if tier == "quick" else (5, 7, "2-4 files, 1-4 places")),
           timeout=900 if tier == "quick" else 3000, workers=14, must_cover=("reported", "silent")),
        Ob(name="K1-interval-logic-symbolic-lines", engine="pathex", harness=h_intervals,
           functions=["ViolationDeduplicator.deduplicate_blocks/_remove_overlaps_from_file/_overlaps_any_kept/_blocks_overlap", "BlockGrouper.group_blocks_by_file",
                      "DRYViolationBuilder.build_violation/_get_location_refs/_build_message", "ViolationFilter.filter_overlapping/_overlaps/_extract_line_count"],
           bounds="1-3 windows with start lines symbolic in [1,40] and a common length symbolic in [1,6]; two violation lines symbolic in [1,60]; file assignment forked",
           timeout=300, workers=8, must_cover=("dropped-some", "kept-all")),
        Ob(name="K3c-targets-split-across-arguments", engine="pathex", harness=h_targets,
           functions=["thailint dry <targets> (in-process CLI)", "execute_linting_on_paths / separate_files_and_dirs", "DRYRule.check/finalize"],
           bounds="forked: 2 languages x 6 ways of naming the same two files (project directory, two directories, file + directory, two files, directory plus a file inside it)",
           timeout=300, workers=6, must_cover=("reported",)),
        Ob(name="K3b-periodic-runs-overlapping-windows", engine="pathex", harness=h_periodic,
           functions=["ViolationGenerator._collect_violations/_meets_min_occurrences", "ViolationDeduplicator.deduplicate_blocks/_remove_overlaps_from_file/_blocks_overlap",
                      "cache_query duplicate-hash selection (sqlite)", "DRYViolationBuilder.*"],
           bounds="min_occurrences unbounded integer >= 1 (symbolic); forked: language (2), window 2..4, one statement repeated w+1..2w-1 times in 1..3 files",
           timeout=300, workers=8, must_cover=("reported", "silent")),
    ]
