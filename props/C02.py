"""C02 — magic numbers: exactly the non-allowed numeric literals outside documented exemptions."""
from __future__ import annotations

import re

from vsym.pathex import And, Eq, Implies, Not, Or
from vsym.repo import mkctx, EXT
from vsym.runner import Ob

LANGS = ("python", "typescript", "javascript", "rust")

# (text, value, is_int)
SPELL = {
    "python": (("3975", 3975, True), ("7", 7, True), ("39.75", 39.75, False), ("0xF87", 3975, True),
               ("3_975", 3975, True), ("0xE5", 229, True), ("0b1011", 11, True), ("2.5e3", 2500.0, False),
               ("2.718281828", 2.718281828, False), ("299792458.0", 299792458.0, False)),
    "typescript": (("3975", 3975, True), ("7", 7, True), ("39.75", 39.75, False), ("0xF87", 3975, True),
                   ("3_975", 3975, True), ("0xE5", 229, True), ("0b1011", 11, True), ("2.5e3", 2500.0, False),
                   ("39n", 39, True), ("2.718281828", 2.718281828, False), ("1234567.5", 1234567.5, False)),
    "rust": (("3975", 3975, True), ("7", 7, True), ("39.75", 39.75, False), ("0xF87", 3975, True),
             ("3_975", 3975, True), ("0xE5", 229, True), ("0b1011", 11, True), ("2.5e3", 2500.0, False),
             ("3975i32", 3975, True), ("7usize", 7, True), ("39.75f64", 39.75, False), ("0x1f32", 0x1f32, True),
             ("0xffu8", 255, True), ("003975", 3975, True), ("6e4", 60000.0, False), ("1e-9", 1e-9, False),
             ("2.718281828", 2.718281828, False), ("0.6213712", 0.6213712, False)),
}
# sloppy-mode JavaScript also has the legacy forms: 0777 is octal (511), 089 is decimal
SPELL["javascript"] = SPELL["typescript"] + (("0777", 511, True), ("089", 89, True))

# context -> (template lines, exempt-kind)   {t} is the literal text
CTX = {
    "python": {
        "binop": (["def f(q):", "    y = q * {t}", "    return y"], None),
        "argument": (["def f(q):", "    return g(q, {t})"], None),
        "return": (["def f(q):", "    return {t}"], None),
        "default": (["def f(q, n={t}):", "    return q"], None),
        "list": (["def f(q):", "    return [q, {t}]"], None),
        "dict-value": (["def f(q):", "    return {{'k': {t}}}"], None),
        "compare": (["def f(q):", "    if q > {t}:", "        return q", "    return q"], None),
        "lower-assign": (["def f(q):", "    y = {t}", "    return y"], None),
        "method": (["class K:", "    def m(self, q):", "        def inner():", "            return q + {t}", "        return inner"], None),
        "negative": (["def f(q):", "    return q + -{t}"], None),
        "UPPER-const": (["LIMIT_A = {t}", "", "def f(q):", "    return q"], "const"),
        "UPPER-const-in-class": (["class K:", "    MAX_N = {t}"], "const"),
        "UPPER-const-negative": (["LIMIT_A = -{t}", "", "def f(q):", "    return q"], "const"),
        "UPPER-const-annotated": (["LIMIT_A: int = {t}", "", "def f(q):", "    return q"], "const"),
        "lower-annotated": (["def f(q):", "    y: int = {t}", "    return y"], None),
        "enumerate-start-kw": (["def f(xs):", "    for i, x in enumerate(xs, start={t}):", "        pass"], "small-int"),
        "range": (["def f(q):", "    for i in range({t}):", "        q += i", "    return q"], "small-int"),
        "enumerate": (["def f(xs):", "    for i, x in enumerate(xs, {t}):", "        pass"], "small-int"),
        "str-format-mod": (["def f(q):", "    return 'n=%d' % {t}"], None),
        "str-concat-call": (["def f(q):", "    return 'n=' + str({t})"], None),
        "subscript": (["def f(q):", "    return q[{t}]"], None),
        "kwarg": (["def f(q):", "    return g(q, size={t})"], None),
        "str-repeat": (["def f(q):", "    return '-' * {t}"], "int-only"),
        "str-repeat-left": (["def f(q):", "    return {t} * '-'"], "int-only"),
    },
    "typescript": {
        "binop": (["function f(q) {{", "  const y = q * {t};", "  return y;", "}}"], None),
        "argument": (["function f(q) {{", "  return g(q, {t});", "}}"], None),
        "return": (["function f(q) {{", "  return {t};", "}}"], None),
        "default": (["function f(q, n = {t}) {{", "  return q;", "}}"], None),
        "list": (["function f(q) {{", "  return [q, {t}];", "}}"], None),
        "compare": (["function f(q) {{", "  if (q > {t}) {{", "    return q;", "  }}", "  return q;", "}}"], None),
        "lower-assign": (["function f(q) {{", "  let y = {t};", "  return y;", "}}"], None),
        "method": (["class K {{", "  m(q) {{", "    const g = () => q + {t};", "    return g;", "  }}", "}}"], None),
        "UPPER-const": (["const LIMIT_A = {t};", "function f(q) {{", "  return q;", "}}"], "const"),
        "enum-member": (["enum Color {{", "  Red = {t},", "}}"], "const"),
        "class-static-const": (["class K {{", "  static MAX_N = {t};", "}}"], "const"),
        "class-field-lower": (["class K {{", "  limit = {t};", "}}"], None),
        "template-interpolation": (["function f(q) {{", "  return `n=${{q * {t}}} items`;", "}}"], None),
        "template-nested": (["function f(q) {{", "  return `a ${{q > {t} ? `big` : `small`}} b`;", "}}"], None),
        "object-value": (["function f(q) {{", "  return {{ size: {t} }};", "}}"], None),
        "ternary": (["function f(q) {{", "  return q ? {t} : q;", "}}"], None),
        # the NAME being defined decides the constant exemption, not an UPPER_CASE name used in the value or as a computed key
        "object-string-key-const-operand": (["function f(q) {{", "  return {{ \"size\": LIMIT_K + {t} }};", "}}"], None),
        "object-computed-key": (["function f(q) {{", "  return {{ [KEY_A]: {t} }};", "}}"], None),
        "lower-assign-const-operand": (["function f(q) {{", "  const total = LIMIT_K * {t};", "  return total;", "}}"], None),
    },
    "rust": {
        "binop": (["fn f(q: i64) -> i64 {{", "    let y = q * {t};", "    y", "}}"], None),
        "argument": (["fn f(q: i64) -> i64 {{", "    g(q, {t})", "}}"], None),
        "return": (["fn f(q: i64) -> i64 {{", "    return {t};", "}}"], None),
        "list": (["fn f(q: i64) -> Vec<i64> {{", "    vec![q]; [q, {t}].to_vec()", "}}"], None),
        "compare": (["fn f(q: i64) -> i64 {{", "    if q > {t} {{", "        return q;", "    }}", "    q", "}}"], None),
        "method": (["struct K;", "impl K {{", "    fn m(&self, q: i64) -> i64 {{", "        let g = |a: i64| a + {t};", "        g(q)", "    }}", "}}"], None),
        "const-item": (["const LIMIT_A: i64 = {t};"], "const"),
        "static-item": (["static LIMIT_B: i64 = {t};"], "const"),
        "test-fn": (["#[test]", "fn check() {{", "    assert_eq!(f(1), {t});", "}}"], "test"),
        "cfg-test-mod": (["#[cfg(test)]", "mod tests {{", "    fn helper() -> i64 {{", "        {t}", "    }}", "}}"], "test"),
        "enum-discriminant": (["enum Level {{", "    Low = {t},", "}}"], "const"),
    },
}
CTX["javascript"] = {k: v for k, v in CTX["typescript"].items() if k != "enum-member"}
NON_NUMERIC = {
    "python": ["flag = True", "other = False", "label = '12345'", "x123 = None", "def h(a=True):", "    return a"],
    "typescript": ["let flag = true;", "let label = '12345';", "let x123 = null;"],
    "javascript": ["let flag = true;", "let label = '12345';", "let x123 = null;"],
    "rust": ["fn h(pair: (bool, bool, bool)) -> bool {", "    let label = \"12345\";", "    let x123 = pair.2;", "    x123 && !label.is_empty()", "}"],
}
FILES = {
    "python": (("app.py", False), ("test_app.py", True), ("app_test.py", True), ("constants.py", "def"),
               ("http_codes.py", "def")),
    "typescript": (("app.ts", False), ("app.test.ts", True), ("app.spec.ts", True), ("latest_v.ts", False),
                   ("contest_x.ts", False), ("test_app.ts", True)),
    "javascript": (("app.js", False), ("app.test.js", True), ("fastest_path.js", False)),
    "rust": (("app.rs", False),),
}


def make_h(tier):
    quick = tier == "quick"

    def h(ctx):
        from src.linters.magic_numbers.linter import MagicNumberRule
        lang = ctx.pick("lang", LANGS)
        fname, ftest = ctx.pick("file", FILES[lang])
        msi = ctx.int("max_small_integer", 1)
        nlit = ctx.pick("nliterals", (1, 2))
        lines, lits, allowed = [], [], [424242]
        if (ctx.flag("with_non_numeric") if nlit == 1 else True):
            lines += NON_NUMERIC[lang] + [""]
        for i in range(nlit):
            spells = SPELL[lang] if i == 0 else (SPELL[lang][1:3] if quick else SPELL[lang][:5])
            text, value, is_int = ctx.pick(f"lit{i}", spells)
            cname = ctx.pick(f"ctx{i}", tuple(CTX[lang]) if i == 0 else (tuple(CTX[lang])[:1] if quick else tuple(CTX[lang])[:4]))
            tmpl, exempt = CTX[lang][cname]
            if cname == "enum-discriminant" and (not is_int or not text.isdigit()):
                ctx.assume(False)       # discriminants are plain integer literals
            in_allowed = ctx.flag(f"allowed{i}")
            if in_allowed:
                allowed.append(value)
            # find the literal's line inside the template
            rel = next(k for k, l in enumerate(tmpl) if "{t}" in l)
            lits.append((text, value, is_int, cname, exempt, len(lines) + rel + 1, in_allowed))
            lines += [l.format(t=text).replace("f(", f"f{i}(").replace(" K", f" K{i}").replace("LIMIT_", f"LIMIT{i}_")
                      for l in tmpl] + [""]
        content = "\n".join(lines) + "\n"
        # the list may be given for the section or for the file's language only (then the section-wide list, which allows
        # everything here, does not apply to it - not even when the language's own list is empty); another language's list never applies
        place = ctx.pick("allowed_numbers_given_in", ("section", "own-language-section", "own-language-section-without-sentinel", "section-next-to-another-language")) \
            if (nlit == 1 and (not quick or lits[0][3] in ("binop", "return"))) else "section"
        everything = [424242] + [l[1] for l in lits]
        if place == "own-language-section-without-sentinel":
            allowed.remove(424242)         # with no literal allowed this is the empty list
        if place.startswith("own-language-section"):
            cfg = {"allowed_numbers": everything, "max_small_integer": msi, lang: {"allowed_numbers": allowed}}
        elif place == "section-next-to-another-language":
            cfg = {"allowed_numbers": allowed, "max_small_integer": msi, ("rust" if lang != "rust" else "python"): {"allowed_numbers": everything}}
        else:
            cfg = {"allowed_numbers": allowed, "max_small_integer": msi}
        key = ctx.pick("section_key", ("magic_numbers", "magic-numbers"))
        vs = MagicNumberRule().check(mkctx(lang, content, {key: cfg}, path="/proj/src/" + fname))
        ctx.require("only-magic-number-violations", all(v.rule_id == "magic-numbers.numeric-literal" for v in vs))
        allowed_vals = set(allowed)
        expected_total = 0
        for text, value, is_int, cname, exempt, line, in_allowed in lits:
            ctx.note("literal", text)
            ctx.note("context", cname)
            mine = [v for v in vs if v.line == line]
            if exempt == "small-int":
                ex = And(is_int, value >= 0, value <= msi) if is_int else False
            elif exempt == "int-only":
                ex = is_int
            else:
                ex = exempt is not None
            want = And(value not in allowed_vals, Not(ex), not ftest)
            if ctx.symbolic:
                want_c = bool(want)      # splits on max_small_integer where it matters
            else:
                want_c = bool(want)
            ctx.cover("flagged" if mine else "not-flagged")
            ctx.require("flagged-iff-not-allowed-and-not-exempt", len(mine) == (1 if want_c else 0),
                        literal=text, context=cname, got=[v.message for v in mine], want=want_c, file=fname)
            for v in mine:
                nums = re.findall(r"Magic number (\S+) ", v.message)
                ctx.require("message-names-the-value", bool(nums) and _same_number(nums[0], value),
                            msg=v.message, value=value)
            expected_total += 1 if want_c else 0
        ctx.require("nothing-else-reported", len(vs) == expected_total, got=[(v.line, v.message) for v in vs],
                    want=expected_total)
    return h


# ------------------------------------------------------------------ K3: constants-definition modules by content
UPPER_KINDS = {            # kind -> (line template, counts as an UPPER_CASE numeric constant)
    "int": ("CODE_{i} = {v}", True), "float": ("CODE_{i} = {v}.5", True), "negative": ("CODE_{i} = -{v}", True),
    "annotated": ("CODE_{i}: int = {v}", True), "bool": ("CODE_{i} = True", False), "string": ("CODE_{i} = '{v}'", False),
    "lowercase-name": ("code_{i} = {v}", False),
}


def make_h_defmod(tier):
    quick = tier == "quick"

    def h(ctx):
        """A Python module is a constants-definition module by content iff ONE dict literal has 5+ integer keys or the
        module has 10+ UPPER_CASE numeric constants (documented heuristics); exactly then its other literals are exempt."""
        from src.linters.magic_numbers.linter import MagicNumberRule
        fname = ctx.pick("file", ("lookup_tables.py", "settings.py"))
        ndicts = ctx.pick("ndicts", (0, 1, 2, 3))
        sizes = [ctx.pick(f"keys{i}", (2, 4, 5) if quick else (0, 2, 4, 5, 6)) for i in range(ndicts)]
        key_kind = ctx.pick("key_kind", ("int", "two-bools-then-ints", "digit-strings")) if ndicts else "int"
        placement = ctx.pick("dict_placement", ("module", "in-function", "nested-in-one-dict")) if ndicts else "module"
        nupper = ctx.pick("n_upper", (0, 9, 10) if quick else (0, 3, 9, 10, 12))
        ukind = ctx.pick("upper_kind", tuple(UPPER_KINDS)) if nupper else "int"
        allowed, lines, real_int_keys = [424242], [], []
        dict_texts = []
        for d, n in enumerate(sizes):
            keys = []
            for k in range(n):
                v = 200 + 10 * d + k
                if key_kind == "two-bools-then-ints" and k < 2:
                    keys.append(("True", "False")[k])
                elif key_kind == "digit-strings":
                    keys.append(f"'{v}'")
                else:
                    keys.append(str(v))
                    allowed.append(v)
            real_int_keys.append(sum(1 for k in keys if k.isdigit()))
            dict_texts.append("{" + ", ".join(f"{k}: 'name{j}'" for j, k in enumerate(keys)) + "}")
        if placement == "module":
            lines += [f"table_{d} = {t}" for d, t in enumerate(dict_texts)]
        elif placement == "in-function":
            lines += ["def tables():"] + [f"    t{d} = {t}" for d, t in enumerate(dict_texts)] + ["    return locals()"]
        else:
            lines += ["registry = {" + ", ".join(f"'group{d}': {t}" for d, t in enumerate(dict_texts)) + "}"]
        tmpl, counts = UPPER_KINDS[ukind]
        for i in range(nupper):
            lines.append(tmpl.format(i=chr(65 + i) * 2, v=300 + i))
            if not counts:
                allowed.append(300 + i)          # a lower-case assignment is not exempt by itself
        lines += ["", "def f(q):", "    return q * 3975"]
        probe_line = len(lines)
        content = "\n".join(lines) + "\n"
        is_def = any(n >= 5 for n in real_int_keys) or (counts and nupper >= 10)
        ctx.note("is_definition_module", bool(is_def))
        vs = MagicNumberRule().check(mkctx("python", content, {"magic_numbers": {"allowed_numbers": allowed}},
                                           path="/proj/src/" + fname))
        ctx.cover("definition-module" if is_def else "ordinary-module")
        mine = [v for v in vs if v.line == probe_line]
        ctx.require("literal-exempt-iff-definition-module", len(mine) == (0 if is_def else 1),
                    int_keys_per_dict=real_int_keys, n_upper=nupper, upper_kind=ukind, got=[(v.line, v.message) for v in vs])
        ctx.require("nothing-else-reported", len(vs) == len(mine), got=[(v.line, v.message) for v in vs])
    return h


# ------------------------------------------------------------------ K2: only numeric-literal node kinds are ever collected
def h_kinds(ctx):
    """A node of ANY grammar kind carrying the text 3975 / true / "12345" is collected as a numeric literal
    iff its kind is a numeric-literal kind of that grammar; const/static/enum context kinds decide exemption."""
    from vsym.nodes import Duck
    from vsym.symkind import SKind, SymSet, kind_table, symbolic_tables
    import src.linters.magic_numbers.typescript_analyzer as ts_mod
    import src.linters.magic_numbers.rust_analyzer as rs_mod
    lang = ctx.pick("grammar", ("typescript", "rust"))
    table = kind_table(lang)
    text = ctx.pick("text", ("3975", "true", "'12345'", "x123", "39.75"))
    kind = SKind(ctx, "node_kind", table)
    parent_kind = SKind(ctx, "parent_kind", table)
    grand_kind = SKind(ctx, "grandparent_kind", table)
    node = Duck(kind, text, start=(2, 4))
    parent = Duck(parent_kind, "", [Duck("identifier", "lower_name"), node], start=(2, 0))
    grand = Duck(grand_kind, "", [parent], start=(1, 0))
    root = Duck("program" if lang == "typescript" else "source_file", "", [grand], start=(0, 0))
    if lang == "typescript":
        from src.linters.magic_numbers.typescript_analyzer import TypeScriptMagicNumberAnalyzer as A
        a = A()
        numeric = ("number",)
        # kinds that contain literals of their own must not be picked for the wrappers
        for k in (parent_kind, grand_kind):
            ctx.assume(k != "number")
        with symbolic_tables(A, ts_mod):
            lits = a.find_numeric_literals(root)
        is_num = kind.is_one_of(numeric)
        parses = text in ("3975", "39.75")
        ctx.cover("collected" if lits else "not-collected")
        ctx.require("collected-iff-numeric-literal-kind", Eq(len(lits) == 1, And(is_num, parses)), text=text)
        if lits:
            ctx.require("line-of-the-literal", lits[0][2] == 3)
            in_enum = a.is_enum_context(node)
            ctx.require("enum-context-iff-an-ancestor-is-an-enum-declaration",
                        Eq(in_enum, Or(parent_kind == "enum_declaration", grand_kind == "enum_declaration")))
    else:
        from src.linters.magic_numbers.rust_analyzer import RustMagicNumberAnalyzer as A
        a = A()
        saved = A.NUMERIC_LITERAL_TYPES
        for k in (parent_kind, grand_kind):
            ctx.assume(Not(k.is_one_of(("integer_literal", "float_literal"))))
        with symbolic_tables(A, rs_mod):
            lits = a.find_numeric_literals(root)
        is_int, is_float = kind == "integer_literal", kind == "float_literal"
        parses = Or(And(is_int, text == "3975"), And(is_float, text in ("3975", "39.75")))
        ctx.cover("collected" if lits else "not-collected")
        # the second child of a field_expression is a field name (tuple index `pair.2`), whatever its token kind
        is_field_name = parent_kind == "field_expression"
        ctx.require("collected-iff-numeric-literal-kind", Eq(len(lits) == 1, And(parses, Not(is_field_name))), text=text)
        if lits:
            ctx.require("line-of-the-literal", lits[0][2] == 3)
            exempting = ("const_item", "static_item", "enum_variant")     # const / static / enum member (documented exemptions)
            ctx.require("const-context-iff-an-ancestor-is-a-const-static-or-enum-member",
                        Eq(a.is_constant_definition(node), Or(parent_kind.is_one_of(exempting), grand_kind.is_one_of(exempting))))


def _same_number(s, value):
    try:
        return float(s) == float(value)
    except ValueError:
        return False


ASSUMPTIONS = (
    "exempt positions are the documented ones: UPPER_CASE constant / const / static / enum member, small int (0..max_small_integer) in range()/enumerate(), string repetition by an int, test files / #[test] / #[cfg(test)], constants-definition modules",
    "literal spellings and syntactic contexts come from the stated tables (forked); max_small_integer is symbolic",
)


def obligations(tier):
    return [
        Ob(name="K1-rule-on-generated-programs", engine="pathex", harness=make_h(tier),
           functions=["MagicNumberRule.check", "_load_config", "MagicNumberConfig.from_dict", "_check_python/_check_typescript/_check_rust",
                      "PythonMagicNumberAnalyzer.find_numeric_literals", "_should_flag_number", "context_analyzer.is_acceptable_context (+helpers)",
                      "definition_detector.is_definition_file", "TypeScriptMagicNumberAnalyzer.find_numeric_literals/_extract_numeric_value/is_enum_context/is_constant_definition",
                      "RustMagicNumberAnalyzer.find_numeric_literals/_extract_numeric_value/_strip_type_suffix/is_constant_definition/is_test_context",
                      "magic_numbers.ViolationBuilder.create_*"],
           bounds="max_small_integer >= 1 unbounded (symbolic to the end); forked: language, file-name class, 1-2 literals with spelling "
                  "(%d py / %d ts / %d rs spellings), syntactic context (%d py / %d ts / %d rs), membership of each value in allowed_numbers, "
                  "section-key spelling, presence of booleans/strings/identifiers with digits"
                  % (len(SPELL["python"]), len(SPELL["typescript"]), len(SPELL["rust"]), len(CTX["python"]), len(CTX["typescript"]), len(CTX["rust"])),
           timeout=400 if tier == "quick" else 2400, workers=14, must_cover=("flagged", "not-flagged"), max_paths=400000 if tier == "quick" else 2000000,
           outside="float formatting in the message beyond numeric equality; content-based definition-file detection is K3's subject"),
        Ob(name="K3-definition-module-by-content", engine="pathex", harness=make_h_defmod(tier),
           functions=["MagicNumberRule._check_python", "definition_detector.is_definition_file/_has_definition_content_patterns/"
                      "_count_uppercase_constants/_has_dict_with_int_keys/_count_int_keys/_is_int_key"],
           bounds="forked: 0-3 dict literals with 0-6 keys each (int keys, two booleans then ints, digit strings), placed at module "
                  "level / in a function / nested in one outer dict; 0-12 UPPER_CASE assignments of one of %d kinds; a probe literal "
                  "3975 in a function" % len(UPPER_KINDS),
           timeout=300 if tier == "quick" else 900, workers=14, must_cover=("definition-module", "ordinary-module"),
           outside="file-name based detection (K1's file table); thresholds other than the documented 5 keys / 10 constants"),
        Ob(name="K2-symbolic-node-kinds-whole-grammar", engine="pathex", harness=h_kinds,
           functions=["TypeScriptMagicNumberAnalyzer.find_numeric_literals/_collect_numeric_literals/_extract_numeric_value/is_enum_context",
                      "RustMagicNumberAnalyzer.find_numeric_literals/_collect_numeric_literals/is_constant_definition"],
           bounds="kinds of the node, its parent and its grandparent are solver variables over the complete kind table of the real grammar (TS 383 / Rust 355 kinds, symbolic to the end); node text from {3975, true, '12345', x123, 39.75}",
           timeout=200, workers=8, must_cover=("collected", "not-collected"),
           stubs=("duck-typed tree-sitter nodes", "SymSet wrapper around RustMagicNumberAnalyzer.NUMERIC_LITERAL_TYPES")),
    ]
