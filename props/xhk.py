"""CrossHair (engine E1) kernels: leaf functions of thai-lint on symbolic strings / ints.
Each function returns True when the property holds; `post: _` is what CrossHair tries to refute.
Reference models are written from the property text / documentation, never from the implementation."""
from __future__ import annotations

import sys

import os
_REPO = os.environ.get("VERIF_REPO", "/repo")
if _REPO not in sys.path:
    sys.path.insert(0, _REPO)

from src.core.config_parser import _normalize_config_keys
from src.linter_config.rule_matcher import _matches_pattern_directly, rule_matches
from src.linters.dry.token_hasher import normalize_line
from src.linters.file_placement.directory_matcher import DirectoryMatcher

RULE_IDS = ("nesting.excessive-depth", "srp.violation", "dry.duplicate-code", "cqs", "lbyl.dict-key-check")


# ---------------------------------------------------------------- C04
def _ref_match(rule_id: str, pattern: str) -> bool:
    r, p = rule_id.lower(), pattern.lower()
    if p.endswith("*"):
        return r.startswith(p[:-1])
    return r == p or r.startswith(p + ".")


def c04_direct_match_agrees_with_reference(rule_id: str, pattern: str) -> bool:
    """
    pre: len(rule_id) <= 3 and len(pattern) <= 3
    pre: all(c in "aB.*" for c in rule_id + pattern)
    post: _
    """
    return _matches_pattern_directly(rule_id, pattern) == _ref_match(rule_id, pattern)


def c04_registered_rule_vs_free_pattern(which: int, pattern: str) -> bool:
    """
    pre: 0 <= which < 5
    pre: len(pattern) <= 3
    pre: all(c in "cCqQsS.*" for c in pattern)
    post: _
    """
    rid = RULE_IDS[which]
    return rule_matches(rid, pattern) == _ref_match(rid, pattern)


# ---------------------------------------------------------------- C18
def _covers(key: str, path: str) -> bool:
    if key == "/":
        return "/" not in path
    return path.startswith(key.rstrip("/") + "/")


def c18_directory_rule_is_boundary_prefix(k1: str, k2: str, path: str) -> bool:
    """
    pre: 1 <= len(k1) <= 3 and 1 <= len(k2) <= 3 and len(path) <= 5
    pre: all(c in "ab/" for c in k1 + k2 + path)
    pre: k1 != k2 and not k1.endswith("//") and not k2.endswith("//")
    pre: not k1.startswith("/") or k1 == "/"
    pre: not k2.startswith("/") or k2 == "/"
    post: _
    """
    rules = {k1: {"tag": 1}, k2: {"tag": 2}}
    rule, matched = DirectoryMatcher().find_matching_rule(path, rules)
    covering = [k for k in (k1, k2) if _covers(k, path)]
    if not covering:
        return rule is None
    if rule is None:
        return False
    # the selected rule must be a covering one of maximal specificity
    depth = lambda k: 0 if k == "/" else len(k.rstrip("/").split("/"))
    best = max(depth(k) for k in covering)
    return matched in covering and depth(matched) == best


# ---------------------------------------------------------------- C05
def c05_key_normalisation(k1: str, k2: str) -> bool:
    """
    pre: len(k1) <= 4 and len(k2) <= 4
    pre: all(c in "ab-_" for c in k1 + k2)
    pre: k1.replace("-", "_") != k2.replace("-", "_")
    post: _
    """
    out = _normalize_config_keys({k1: 1, k2: 2})
    return out.get(k1.replace("-", "_")) == 1 and out.get(k2.replace("-", "_")) == 2 and len(out) == 2


# ---------------------------------------------------------------- C13 / C03
def c13_normalize_line_ignores_trailing_whitespace(line: str, pad: int) -> bool:
    """
    pre: len(line) <= 4 and 0 <= pad <= 3
    pre: all(c in "ab #/='" for c in line)
    post: _
    """
    return normalize_line(line + " " * pad) == normalize_line(line) and normalize_line(line + "\t") == normalize_line(line)


def c13_normalize_line_idempotent_and_indent_free(line: str, indent: int) -> bool:
    """
    pre: len(line) <= 4 and 0 <= indent <= 4
    pre: all(c in "ab #/='" for c in line)
    post: _
    """
    n = normalize_line(line)
    return normalize_line(n) == n and normalize_line(" " * indent + line) == n
