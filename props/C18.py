"""C18 — file-placement verdicts follow the allow/deny rules exactly."""
from __future__ import annotations

import re
import tempfile
import shutil
from pathlib import Path

from vsym.pathex import And, Eq, Implies, Not, Or
from vsym.runner import Ob

PATHS = ("src/a.py", "src/app/b.py", "src/app/x.tmp", "srcfoo/c.py", "lib/d.py", "top.py", "docs/e.md", "src/App/h.py", "Docs/i.md",
         "src/appx/f.py", "src/app/deep/g.py", "README", "src")
PATTERNS = (r".*\.py$", r".*\.tmp$", r"^src/", r"^src/app/", r".*", r"\.md$", r"^never-matches$", r"(?i)B\.PY$",
            r"^lib/|\.tmp$", r"^docs/|app/b\.py$")       # a leading ^ binds to the first alternative only
DIR_KEYS = ("src", "src/app", "/", "lib", "src/", "src/app/deep", "src/App", "docs")     # directory names are case-sensitive (patterns are not)


def covers(key, path):
    """Directory-boundary prefix (documented meaning of a directory rule)."""
    if key == "/":
        return "/" not in path
    k = key.rstrip("/")
    return path.startswith(k + "/")


def depth(key):
    return 0 if key == "/" else len(key.rstrip("/").split("/"))


def matches(pat, path):
    return re.search(pat, path, re.IGNORECASE) is not None


def _pick_rule(ctx, name, menu):
    """A directory rule / global block chosen from a small menu of (deny, allow) shapes."""
    shape = ctx.pick(name, menu)
    pats = PATTERNS if len(menu) > 4 else PATTERNS[:3]
    rule = {}
    if shape in ("deny", "deny+allow", "deny2"):
        d = [ctx.pick(name + "_d0", pats)]
        if shape == "deny2":
            d.append(ctx.pick(name + "_d1", PATTERNS[:3]))
        rule["deny"] = [{"pattern": p, "reason": "r"} if k % 2 == 0 else p for k, p in enumerate(d)]
    if shape in ("allow", "deny+allow", "allow2"):
        a = [ctx.pick(name + "_a0", pats)]
        if shape == "allow2":
            a.append(ctx.pick(name + "_a1", PATTERNS[:3]))
        rule["allow"] = a
    if shape == "empty-lists":
        rule = {"deny": [], "allow": []}
    return rule


FULL = ("empty", "deny", "allow", "deny+allow", "deny2", "allow2", "empty-lists")
SMALL = ("empty", "deny", "allow", "deny+allow")


def make_h(tier):
    quick = tier == "quick"
    paths = PATHS if not quick else PATHS[:9] + PATHS[-1:]
    pats_small = PATTERNS[:4] if not quick else PATTERNS[:3]

    def h(ctx):
        from src.linters.file_placement.linter import FilePlacementLinter
        path = ctx.pick("path", paths)
        shape = ctx.pick("shape", ("no-rules", "one-dir", "two-dirs", "dir+global", "global-only"))
        cfg = {}
        dirs = {}
        if shape in ("one-dir", "two-dirs", "dir+global"):
            ndirs = 2 if shape == "two-dirs" else 1
            for i in range(ndirs):
                key = ctx.pick(f"dirkey{i}", DIR_KEYS if (i == 0 and shape == "one-dir") else
                               (DIR_KEYS[:5] if i == 0 else DIR_KEYS[:3] + ("src/app/",)))     # keys with and without a trailing slash, in both orders
                if key in dirs:
                    ctx.assume(False)
                dirs[key] = _pick_rule(ctx, f"dir{i}", FULL if shape == "one-dir" else SMALL)
            cfg["directories"] = dirs
        if shape in ("dir+global", "global-only"):
            kind = ctx.pick("global_kind", ("global_deny", "global_patterns", "both"))
            if kind in ("global_deny", "both"):
                cfg["global_deny"] = [{"pattern": ctx.pick("gd0", PATTERNS[:4]), "reason": "g"}]
            if kind in ("global_patterns", "both"):
                gp = _pick_rule(ctx, "gp", SMALL)
                if gp:
                    cfg["global_patterns"] = gp
        spelled = ctx.pick("wrapping", ("unwrapped", "file-placement", "file_placement")) if shape == "one-dir" else "unwrapped"
        conf = cfg if spelled == "unwrapped" else {spelled: cfg}
        root = Path("/proj")
        target = ctx.pick("target_spelling", ("absolute", "relative")) if shape in ("one-dir", "global-only") else "absolute"
        linter = FilePlacementLinter(config_obj=conf if conf else None, project_root=root)
        vs = linter.lint_path(root / path if target == "absolute" else Path(path))
        # ---- oracle (from the statement)
        covering = [k for k in dirs if covers(k, path)]
        ctx.note("covered", bool(covering))
        ctx.note("shape", shape)
        if covering:
            best = max(covering, key=depth)
            ties = [k for k in covering if depth(k) == depth(best)]
            if len(ties) > 1:
                ctx.assume(False)      # equally specific rules: the statement does not say which wins
            rule = dirs[best]
            denied = any(matches(_pat(p), path) for p in rule.get("deny", []))
            not_allowed = "allow" in rule and not any(matches(p, path) for p in rule["allow"])
            want = denied or not_allowed
            ctx.note("judged_by", "directory:" + best)
        else:
            gden = any(matches(_pat(p), path) for p in cfg.get("global_deny", []))
            gp = cfg.get("global_patterns", {})
            gpden = any(matches(_pat(p), path) for p in gp.get("deny", []))
            gpna = "allow" in gp and not any(matches(p, path) for p in gp["allow"])
            want = gden or gpden or gpna
            ctx.note("judged_by", "global")
        ctx.note("matched_by_wrong_dir", [k for k in dirs if path.startswith(k) and not covers(k, path)])
        ctx.cover("reported" if vs else "clean")
        ctx.require("reported-iff-rules-say-so", bool(vs) == want, path=path, config=cfg, got=[v.message[:80] for v in vs], want=want)
        ctx.require("only-file-placement-ids", all(v.rule_id.startswith("file-placement") for v in vs))
    return h


def _pat(p):
    return p["pattern"] if isinstance(p, dict) else p


RULESETS = {
    "strict": {"directories": {"src": {"allow": [r".*\.py$"]}, "docs": {"allow": [r".*\.md$"]}}},
    "inverted": {"directories": {"src": {"deny": [{"pattern": r".*\.py$", "reason": "r"}]}, "docs": {"deny": [{"pattern": r".*\.md$", "reason": "r"}]}}},
    "global-only": {"global_deny": [{"pattern": r".*\.txt$", "reason": "r"}]},
    "no-rules": {},
}
TREE = ("src/app.py", "src/notes.txt", "docs/guide.md", "docs/tool.py")


def h_successive_rule_sets(ctx):
    """Two lint runs of the same project root in one process, each with its own rule set (its own Linter object,
    its own configuration file): the second run follows the second rule set."""
    import yaml
    import src.linter_config.ignore as ign
    from src.api import Linter
    first = ctx.pick("first_rule_set", tuple(RULESETS))
    second = ctx.pick("second_rule_set", tuple(RULESETS))
    wrap = ctx.pick("wrapping", ("file-placement", "file_placement"))
    d = Path(tempfile.mkdtemp(prefix="c18s-"))
    try:
        (d / ".git").mkdir()
        for rel in TREE:
            (d / rel).parent.mkdir(parents=True, exist_ok=True)
            (d / rel).write_text("x = 1\n")
        got = []
        for i, name in enumerate((first, second)):
            cf = d / ("rules_%d.yaml" % i)
            cf.write_text(yaml.safe_dump({wrap: RULESETS[name]} if RULESETS[name] else {"nesting": {"enabled": True}}))
            ign.clear_ignore_parser_cache()
            vs = Linter(config_file=cf, project_root=d).lint(d, rules=["file-placement"])
            got = sorted({str(Path(v.file_path)) if not str(v.file_path).startswith(str(d)) else str(Path(v.file_path).relative_to(d)) for v in vs})
            got = [g for g in got if g in TREE]
    finally:
        shutil.rmtree(d, True)
        ign.clear_ignore_parser_cache()
    cfg = RULESETS[second]
    want = []
    for rel in TREE:
        covering = [k for k in cfg.get("directories", {}) if covers(k, rel)]
        if covering:
            rule = cfg["directories"][max(covering, key=depth)]
            bad = any(matches(_pat(p), rel) for p in rule.get("deny", [])) or ("allow" in rule and not any(matches(p, rel) for p in rule["allow"]))
        else:
            bad = any(matches(_pat(p), rel) for p in cfg.get("global_deny", []))
        if bad:
            want.append(rel)
    ctx.cover("reported" if want else "clean")
    ctx.require("each-run-follows-its-own-rule-set", got == sorted(want), first=first, second=second, got=got, want=sorted(want))


def h_invalid_pattern(ctx):
    from src.linters.file_placement.linter import FilePlacementLinter
    bad = ctx.pick("bad_pattern", ("[unclosed", "(", "*.py", "a{2,1}", "(?P<x>a)(?P<x>b)", "\\"))
    where = ctx.pick("where", ("dir-deny", "dir-allow", "global_deny", "global_patterns-deny", "global_patterns-allow"))
    cfg = {"dir-deny": {"directories": {"src": {"deny": [{"pattern": bad, "reason": "r"}]}}},
           "dir-allow": {"directories": {"src": {"allow": [bad]}}},
           "global_deny": {"global_deny": [{"pattern": bad, "reason": "r"}]},
           "global_patterns-deny": {"global_patterns": {"deny": [{"pattern": bad, "reason": "r"}]}},
           "global_patterns-allow": {"global_patterns": {"allow": [bad]}}}[where]
    try:
        re.compile(bad)
        ctx.assume(False)
    except re.error:
        pass
    try:
        FilePlacementLinter(config_obj=cfg, project_root=Path("/proj"))
        raised = False
    except ValueError:
        raised = True
    ctx.cover("rejected" if raised else "accepted")
    ctx.require("invalid-pattern-is-a-configuration-error", raised, pattern=bad, where=where)


ASSUMPTIONS = (
    "regex semantics are those of Python's re (trusted); patterns and paths come from the stated tables",
    "a directory rule covers a path when its key is a directory-boundary prefix of the project-relative path ('/' covers top-level files)",
    "rule sets with two equally specific covering directory keys are excluded (the statement does not say which wins)",
)


def obligations(tier):
    extra = []
    if tier == "thorough":
        extra = [Ob(name="E1-directory-rule-is-boundary-prefix", engine="xh", module="props.xhk", fn="c18_directory_rule_is_boundary_prefix",
                    functions=["DirectoryMatcher.find_matching_rule/_check_path_match/_check_root_match"], deciding=False, timeout=240,
                    bounds="CrossHair: two directory keys (len <= 3) and a path (len <= 5) symbolic strs over the alphabet ab/ (hunting: a timeout claims nothing)")]
    return extra + [
        Ob(name="K2-verdicts-on-rule-sets", engine="pathex", harness=make_h(tier),
           functions=["FilePlacementLinter.__init__/_unwrap_config/lint_path", "PathResolver.get_relative_path/normalize_path_string",
                      "RuleChecker.check_all_rules/_check_directory_rules/_check_directory_deny_rules/_check_directory_allow_rules/_check_global_deny/_check_global_patterns",
                      "DirectoryMatcher.find_matching_rule/_check_path_match/_check_root_match", "PatternMatcher.match_deny_patterns/match_allow_patterns",
                      "PatternValidator.validate_config"],
           bounds="forked: %d paths x rule-set shape (none / 1-2 directory rules over %d keys / +global / global only) x presence and content of deny/allow "
                  "lists over %d regexes x config wrapping (3) x absolute/relative target; nothing symbolic (string matching through re)" % (len(PATHS), len(DIR_KEYS), len(PATTERNS)),
           timeout=900 if tier == "quick" else 3000, workers=14, must_cover=("reported", "clean")),
        Ob(name="K4-successive-rule-sets-on-one-root", engine="pathex", harness=h_successive_rule_sets,
           functions=["Linter(config_file, project_root).lint(rules=['file-placement'])", "FilePlacementRule.check/_get_or_create_linter/_linter_cache", "FilePlacementLinter"],
           bounds="forked: 4 rule sets x 4 rule sets x 2 section spellings, two fresh Linter objects on one project root in one process",
           timeout=300, workers=8, must_cover=("reported", "clean")),
        Ob(name="K3-invalid-patterns-rejected", engine="pathex", harness=h_invalid_pattern,
           functions=["PatternValidator.validate_config (+helpers)"],
           bounds="6 syntactically invalid regexes x 5 places in the configuration", timeout=60, workers=2, must_cover=("rejected",)),
    ]
