"""C11 — no input makes a linter crash, hang, or silently drop its analysis (partly applicable:
fault schedules and a table of pathological contents; arbitrary bytes through the C parsers are
outside the reach of solver-based checking, see DESIGN.md §5)."""
from __future__ import annotations

import atexit
import os
import logging
import shutil
import tempfile
from collections import Counter
from pathlib import Path

from vsym import triggers
from vsym.pathex import And, Eq, Implies, Not, Or
from vsym.runner import Ob

HEALTHY = ("magic.py", "nest.ts", "unwrap.rs", "printy.js", "dup1.py", "dup2.py")
BAD = {
    "empty": b"",
    "whitespace-only": b"   \n\t\n  \n",
    "invalid-utf8": b"def f():\n    return '\xff\xfe\xfa'\n",
    "nul-bytes": b"x = 1\x00\x00\x00y = 2\n",
    "bom-only": b"\xef\xbb\xbf",
    "mixed-line-endings": b"def f(a):\r\n    if a:\r        return 3975\n    return a\r\n",
    "truncated": b"def f(a):\n    if a:\n        for i in a:\n            while (",
    "unbalanced-brackets": b"x = [1, 2, (3, 4}\n]]]))\n",
    "very-long-line": b"x = [" + b"3975, " * 2500 + b"1]\n",
    "deeply-nested-expression": b"x = " + b"(" * 400 + b"1" + b")" * 400 + b"\n",
    "long-operator-chain": b"def f(a):\n    return " + b" + ".join([b"a"] * 2000) + b"\n\n\nx = " + b" + ".join([b"1"] * 2000) + b"\n",
    # CPython's own parser gives up (RecursionError from ast.parse) a little below 3000 operands
    "operator-chain-beyond-cpython-parser-limit": b"x = " + b" + ".join([b"1"] * 6000) + b"\n",
    "long-call-chain": b"x = q" + b".m()" * 1200 + b"\n",
    # files cut off right after a header: the grammar yields the item without its body
    "rust-impl-header-without-body": b"struct Session {\n    id: u32,\n}\n\nimpl Session {\n    pub fn open(&self) {}\n}\n\nimpl Session",
    "rust-impl-semicolon": b"struct Session {\n    id: u32,\n}\n\nimpl Session;\nimpl Clone for Session;\n",
    "class-header-without-body": b"class Session",
    "function-header-without-body": b"def open(self):",
    "ts-class-header-without-body": b"export class Session extends Base",
    # an import list left open at the end of the file (state that must not leak into the next file)
    "truncated-multiline-import": b"import os\nfrom collections import (\n    OrderedDict,\n    defaultdict,\n",
    # an unterminated doc comment followed by a long run of blanks (regex backtracking)
    "unterminated-jsdoc-then-whitespace": b"/**" + b" " * 4000 + b"\nconst x = 1;\n",
    "deep-blocks": "".join("    " * i + "if a%d:\n" % i for i in range(60)).encode() + b"    " * 60 + b"pass\n",
    "only-comments": b"# a\n# b\n// c\n",
    "lone-surrogate-escape": "s = '\\ud800'\n".encode(),
    "form-feed-and-vt": b"def f():\x0c\n    return\x0b 1\n",
    "truncated-shebang": b"#!\n",
    "shebang-env-without-interpreter": b"#!/usr/bin/env\nprint(3975)\n",
    "shebang-only-spaces": b"#!   ",
    "huge-hex-literal": b"x = 0x" + b"f" * 5000 + b"\ny = 7\n",
    "huge-hex-module-constant": b"MAX_V = 0x" + b"F" * 4000 + b"\nOTHER = 7\n",
    "huge-hex-call-argument": b"def f():\n    x = g(0x" + b"F" * 4000 + b")\n    print(x)\n    return x\n",
    "huge-decimal-literal": b"let x = " + b"9" * 5000 + b";\n",
    "surrogate-escape-in-membership-test": b"def f(mode):\n    if mode in (\"\\ud800\", \"fast\", \"slow\"):\n        return 1\n    return 0\n",
    "legacy-number-forms": b"fs.chmodSync(path, 0755);\nlet a = 08;\nlet b = 0b2;\nlet c = 1__0;\nlet d = 0x;\nlet e = 1e;\nlet f = 1.2.3;\nlet g = 09n;\n",
    "odd-rust-literals": b"fn f() -> u64 {\n    let a = 0o9;\n    let b = 1_u99;\n    let c = 0xg;\n    let d = 1e;\n    a + b + c + d as u64 + 99999999999999999999999999\n}\n",
}
EXTS = (".py", ".ts", ".js", ".rs", ".txt", "")
HEAVY = ("long-operator-chain", "long-call-chain", "operator-chain-beyond-cpython-parser-limit", "unterminated-jsdoc-then-whitespace")
_P = {}
_TIER = {"t": "quick"}


class _Tap(logging.Handler):
    def __init__(self):
        super().__init__(level=logging.ERROR)
        self.records = []

    def emit(self, record):
        self.records.append(record.getMessage()[:200])


def _proj():
    if _P.get("pid") != os.getpid():
        _P["pid"] = os.getpid()
        d = tempfile.mkdtemp(prefix="c11proj-")
        atexit.register(shutil.rmtree, d, True)
        triggers.write_project(d, names=set(HEALTHY))
        # a duplicated block without a single parenthesis before it (state left over from a file with an open
        # bracket would swallow it)
        for n in (1, 2):
            (Path(d) / "src" / ("ab_plain%d.py" % n)).write_text(
                '"""Module %d."""\ntotal = 4\ncount = 5\nratio = 6\nlimit = 7\ntotal = total + 1\ncount = count + total\n'
                'ratio = ratio - count\nlimit = limit * ratio\nshow(limit, %d)\n' % (n, n))
        _P["d"] = Path(d)
    return _P["d"]


def _k(v):
    return (v.rule_id, v.file_path, v.line, v.column, v.message)


_BASE = {}


def _baseline():
    import src.linter_config.ignore as ign
    from src.orchestrator.core import Orchestrator
    if _BASE.get("pid") != os.getpid():
        _BASE["pid"] = os.getpid()
        d = _proj()
        ign.clear_ignore_parser_cache()
        _BASE["v"] = Counter(_k(v) for v in Orchestrator(project_root=d).lint_files(sorted((d / "src").iterdir())))
    return _BASE["v"]


def h_bad_content(ctx):
    import src.linter_config.ignore as ign
    from src.orchestrator.core import Orchestrator
    d = _proj()
    base = _baseline()
    kind = ctx.pick("content", tuple(BAD))
    heavy = kind in HEAVY and _TIER["t"] == "quick"      # seconds per rule and file: one run kind, one extension per language
    ext = ctx.pick("extension", (".py", ".ts", ".rs") if heavy else EXTS)
    how = ctx.pick("run", ("file-list",) if heavy else ("file-list", "directory", "cli"))
    # the offending file is processed after all healthy files, or before them
    first = ctx.flag("offending_file_sorts_first") if not heavy else False
    f = d / "src" / (("aa_offending" if first else "zz_offending") + ext)
    f.write_bytes(BAD[kind])
    import time
    t_start = time.time()
    tap = _Tap()
    lg = logging.getLogger("src.orchestrator.core")
    was_disabled, old_level = logging.root.manager.disable, lg.level
    logging.disable(logging.NOTSET)
    lg.addHandler(tap)
    err = None
    code = None
    try:
        ign.clear_ignore_parser_cache()
        if how == "cli":
            import json
            from click.testing import CliRunner
            from src.cli_main import cli
            codes = {}
            for cmd in ("nesting", "magic-numbers", "dry", "unwrap-abuse", "improper-logging", "srp"):
                ign.clear_ignore_parser_cache()
                r = CliRunner().invoke(cli, [cmd, "--format", "json", str(d / "src")])
                codes[cmd] = r.exit_code
            code = codes
            got = None
        elif how == "file-list":
            got = Orchestrator(project_root=d).lint_files(sorted((d / "src").iterdir()))
        else:
            got = Orchestrator(project_root=d).lint_directory(d / "src")
    except Exception as e:      # noqa
        err = "%s: %s" % (type(e).__name__, str(e)[:150])
        got = None
    finally:
        lg.removeHandler(tap)
        logging.disable(was_disabled)
        f.unlink()
    ctx.note("content", kind)
    ctx.note("extension", ext)
    ctx.cover("ran")
    elapsed = time.time() - t_start
    ctx.require("run-terminates-without-exception", err is None, content=kind, ext=ext, error=err)
    # "never hangs": the largest inputs of the table take a few seconds; half a minute for one run means a blow-up
    ctx.require("run-finishes-in-reasonable-time", elapsed < 30 or how == "cli" and elapsed < 120, content=kind, ext=ext, seconds=round(elapsed, 1))
    if code is not None:
        ctx.require("every-command-exits-0-or-1", all(c in (0, 1) for c in code.values()), codes=code, content=kind, ext=ext)
    ctx.require("no-rule-fails-internally", not tap.records, content=kind, ext=ext, logged=tap.records[:2])
    if got is not None:
        others = Counter(_k(v) for v in got if v.file_path != str(f))
        ctx.require("other-files-findings-unchanged", others == base, content=kind, ext=ext,
                    lost=[list(k)[:3] for k in list(base - others)[:3]], gained=[list(k)[:3] for k in list(others - base)[:3]])


def h_read_faults(ctx):
    """A read of one file fails at a symbolic call index with one of the documented errors."""
    import src.linter_config.ignore as ign
    from src.orchestrator.core import Orchestrator
    d = _proj()
    base = _baseline()
    files = sorted((d / "src").iterdir())
    victim = files[ctx.choice("victim_file", len(files))]
    exc = ctx.pick("error", ("OSError", "PermissionError", "UnicodeDecodeError", "IsADirectoryError"))
    k = ctx.int("fails_from_read_number", 1, 6 if _TIER["t"] == "quick" else 12)       # the k-th and every later read of the victim fails
    real = Path.read_text
    count = {"n": 0}

    def read_text(self, *a, **kw):
        if str(self) == str(victim):
            count["n"] += 1
            if count["n"] >= k:
                if exc == "UnicodeDecodeError":
                    raise UnicodeDecodeError("utf-8", b"\xff", 0, 1, "invalid start byte")
                raise {"OSError": OSError, "PermissionError": PermissionError, "IsADirectoryError": IsADirectoryError}[exc]("injected")
        return real(self, *a, **kw)
    tap = _Tap()
    lg = logging.getLogger("src.orchestrator.core")
    was_disabled = logging.root.manager.disable
    logging.disable(logging.NOTSET)
    lg.addHandler(tap)
    err = None
    try:
        Path.read_text = read_text
        ign.clear_ignore_parser_cache()
        got = Orchestrator(project_root=d).lint_files(files)
    except Exception as e:     # noqa
        err = "%s: %s" % (type(e).__name__, str(e)[:150])
        got = []
    finally:
        Path.read_text = real
        lg.removeHandler(tap)
        logging.disable(was_disabled)
    ctx.cover("faulted" if count["n"] else "no-read")
    ctx.require("run-terminates-without-exception", err is None, victim=victim.name, error=err)
    ctx.require("no-rule-fails-internally", not tap.records, victim=victim.name, logged=tap.records[:2])
    others = Counter(_k(v) for v in got if v.file_path != str(victim))
    # cross-file findings that name the victim disappear legitimately: compare findings not involving it
    want = Counter({key: c for key, c in base.items() if key[1] != str(victim) and victim.name not in key[4]})
    others = Counter({key: c for key, c in others.items() if victim.name not in key[4]})
    if victim.name.startswith("dup"):
        want = Counter({key: c for key, c in want.items() if not key[0].startswith("dry")})
        others = Counter({key: c for key, c in others.items() if not key[0].startswith("dry")})
    ctx.require("other-files-findings-unchanged", others == want, victim=victim.name,
                lost=[list(x)[:3] for x in list(want - others)[:3]], gained=[list(x)[:3] for x in list(others - want)[:3]])


ASSUMPTIONS = (
    "pathological contents are a fixed table (concrete inputs; included because they exercise the same assertions, not as a claim about arbitrary bytes)",
    "read faults are injected by replacing Path.read_text for one victim file from a symbolic call index on",
    "a swallowed exception is observed through the orchestrator's own logger (logger.exception in _safe_check_rule / worker)",
)


# ---------------------------------------------------------------- K2c: comments that look like suppression directives
_TOKEN = "sha256" + "d2a8f07c" * 8          # a long unbroken run of letters and digits (a checksum used as the "reason")
DIRECTIVE_LINES = {
    ".py": ("TABLE = load('blob.bin')  # noqa: %s.", "TABLE = load('blob.bin')  # noqa:%s-", "import os  # type: ignore[%s.", "import os  # type: ignore  # %s;",
            "import os  # pylint: disable=%s;", "x = eval('1')  # nosec %s.", "y = 3975  # thailint: ignore[%s", "y = 3975  # thailint: ignore %s.",
            "# thailint: ignore-start %s.", "# dry: ignore-block %s."),
    ".ts": ("const a = load('blob');  // eslint-disable-line %s.", "// eslint-disable-next-line %s;", "// @ts-ignore %s.", "// @ts-expect-error: %s.",
            "const y = 3975;  // thailint: ignore %s.", "/* eslint-disable %s. */"),
}
_SUB = ("import sys, json\nfrom pathlib import Path\nfrom src.orchestrator.core import Orchestrator\n"
        "d = Path(sys.argv[1])\nvs = Orchestrator(project_root=d).lint_files(sorted(d.glob('src/*')))\n"
        "print(json.dumps(sorted({Path(v.file_path).name for v in vs})))\n")


def h_directive_like_comments(ctx):
    """A comment that starts like a suppression directive and goes on with a long token, or a long run of blanks, in a file
    next to a healthy one: the run (a process of its own, killed after 40 s) ends, exits normally and still reports the
    healthy file."""
    import subprocess
    import sys
    ext = ctx.pick("extension", tuple(DIRECTIVE_LINES))
    line = ctx.pick("line", DIRECTIVE_LINES[ext])
    filler = ctx.pick("filler", ("long-token", "long-token-twice", "blanks-then-text"))
    text = {"long-token": _TOKEN, "long-token-twice": _TOKEN + " " + _TOKEN, "blanks-then-text": "E501" + " " * 6000 + "x"}[filler]
    d = Path(tempfile.mkdtemp(prefix="c11dir-"))
    try:
        (d / ".git").mkdir()
        (d / "src").mkdir()
        (d / "src" / "healthy.py").write_text(triggers.T["magic.py"][3])
        body = ["def f(a):", "    return a"] if ext == ".py" else ["function f(a) {", "  return a;", "}"]
        (d / "src" / ("odd" + ext)).write_text("\n".join(body + [line % text] + ["# thailint: ignore-end" if "ignore-start" in line else ""]) + "\n")
        env = dict(os.environ, PYTHONPATH=os.environ.get("VERIF_REPO", "/repo"))
        try:
            p = subprocess.run([sys.executable, "-c", _SUB, str(d)], capture_output=True, text=True, env=env, timeout=40)
            done, out, code = True, p.stdout.strip(), p.returncode
        except subprocess.TimeoutExpired:
            done, out, code = False, "", None
    finally:
        shutil.rmtree(d, True)
    ctx.cover("ran")
    ctx.require("run-terminates", done, line=line[:40], filler=filler)
    if done:
        ctx.require("run-exits-normally", code == 0, code=code, line=line[:40])
        ctx.require("healthy-file-still-reported", "healthy.py" in out, out=out[:100])


def obligations(tier):
    _TIER["t"] = tier
    return [
        Ob(name="K2a-pathological-contents-among-healthy-files", engine="pathex", harness=h_bad_content,
           functions=["Orchestrator.lint_files/lint_directory/_safe_check_rule", "FileLintContext.file_content", "detect_language", "every rule's check() on the offending file", "CLI commands (in-process)"],
           bounds="forked: %d pathological contents x 6 extensions x {file list, directory, 6 CLI commands}; nothing symbolic" % len(BAD),
           timeout=900, workers=14, must_cover=("ran",)),
        Ob(name="K2c-directive-like-comments-with-long-tokens", engine="pathex", harness=h_directive_like_comments,
           functions=["lazy_ignores PythonIgnoreDetector / TypeScriptIgnoreDetector patterns", "directive_utils.INLINE_JUSTIFICATION_PATTERN", "ignore.py / rule_matcher regexes",
                      "every rule's own directive lookups", "Orchestrator.lint_files (in a process of its own)"],
           bounds="forked: %d directive-like comment lines (py / ts) x 3 fillers (a 70-character token, two of them, 6000 blanks then text); each run in its own "
                  "process with a 40 s limit" % sum(len(v) for v in DIRECTIVE_LINES.values()),
           timeout=900, workers=12, must_cover=("ran",)),
        Ob(name="K2b-read-faults-at-symbolic-call-index", engine="pathex", harness=h_read_faults,
           functions=["FileLintContext.file_content", "language_detector._detect_from_shebang/_read_first_line", "ignore._read_file_first_lines", "Orchestrator.lint_files"],
           bounds="victim file (6) x 4 documented read errors x failing from the k-th read on, k symbolic in [1,6]",
           timeout=600, workers=14, must_cover=("faulted",)),
    ]
