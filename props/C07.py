"""C07 — --parallel reports exactly what the sequential run reports."""
from __future__ import annotations

import atexit
import itertools
import pickle
import shutil
import tempfile
from collections import Counter
from concurrent.futures import Future
from pathlib import Path

from vsym import triggers
from vsym.pathex import And, Eq, Or
from vsym.runner import Ob

ORDER = ["dup1.py", "dup2.py", "strg1.py", "strg2.py", "a_tokenizer.py", "b_scanner.py", "nest.py", "magic.ts", "printy.js", "unwrap.rs", "square.ts", "cube.rs",
         "nest3.ts", "nest3.rs", "wide.py", "wide.ts"] + \
    ["extra%02d.py" % i for i in range(26)]
_P = {}


def _proj():
    if "d" not in _P:
        d = tempfile.mkdtemp(prefix="c07proj-")
        atexit.register(shutil.rmtree, d, True)
        triggers.write_project(d, names=set(ORDER))
        # several findings that are identical in every field (same literal twice on one line, column 0)
        (Path(d) / "src" / "square.ts").write_text("function area(): number {\n  const a = 37 * 37;\n  return a;\n}\n")
        (Path(d) / "src" / "cube.rs").write_text("fn volume() -> i64 {\n    let v = 41 * 41 * 41;\n    v\n}\n")
        # a pair whose findings depend on state an analyzer might carry from file to file (a worker starts clean)
        (Path(d) / "src" / "a_tokenizer.py").write_text("import re as rx\n\n\nWORD = rx.compile('a+')\n\n\ndef words(text):\n    return WORD.findall(text)\n")
        (Path(d) / "src" / "b_scanner.py").write_text("import regex as rx\n\n\ndef scan(items):\n    out = []\n    for it in items:\n        if rx.search('a+', it):\n            out.append(it)\n    return out\n")
        # depth 3 / five methods: reported or not depending on WHICH language's threshold is applied
        (Path(d) / "src" / "nest3.ts").write_text("function walk(xs: number[][]): number {\n  let t = 0;\n  for (const row of xs) {\n    for (const x of row) {\n      if (x) {\n        t += x;\n      }\n    }\n  }\n  return t;\n}\n")
        (Path(d) / "src" / "nest3.rs").write_text("fn walk(xs: &[Vec<i64>]) -> i64 {\n    let mut t = 0;\n    for row in xs {\n        for x in row {\n            if *x > 0 {\n                t += x;\n            }\n        }\n    }\n    t\n}\n")
        (Path(d) / "src" / "wide.py").write_text("class Wide:\n" + "".join("    def m%d(self):\n        return %d\n\n" % (i, i) for i in range(5)))
        (Path(d) / "src" / "wide.ts").write_text("class WideT {\n" + "".join("  m%d() {\n    return %d;\n  }\n" % (i, i) for i in range(5)) + "}\n")
        for i in range(26):   # cheap per-file findings, every file different
            (Path(d) / "src" / ("extra%02d.py" % i)).write_text(
                "def price%d(q):\n    print(q)\n    return q * %d\n" % (i, 7001 + i))
        _P["d"] = Path(d)
    return _P["d"]


class InProcessExecutor:
    """Stands in for ProcessPoolExecutor: every work item runs in isolation from the parent's
    rule objects (true of _lint_file_worker, which builds its own Orchestrator)."""

    def __init__(self, max_workers=None):
        pass

    def __enter__(self):
        return self

    def __exit__(self, *a):
        return False

    def submit(self, fn, *a):
        f = Future()
        try:
            # as in a real pool, the arguments reach the worker as a pickled copy and the result comes back as one
            f.set_result(pickle.loads(pickle.dumps(fn(*pickle.loads(pickle.dumps(a))))))
        except Exception as e:  # noqa
            # an exception travels back pickled as well; one that cannot be rebuilt breaks the pool for every pending item
            try:
                f.set_exception(pickle.loads(pickle.dumps(e)))
            except Exception:  # noqa
                from concurrent.futures.process import BrokenProcessPool
                f.set_exception(BrokenProcessPool("A process in the process pool was terminated abruptly while the future was running or pending."))
        return f


def _key(v):
    d = v.to_dict()
    return tuple(sorted((k, str(x)) for k, x in d.items()))


def _cmp(ctx, seq, par):
    cs, cp = Counter(map(_key, seq)), Counter(map(_key, par))
    missing, extra = cs - cp, cp - cs
    ctx.note("missing_rules", sorted({dict(k)["rule_id"] for k in missing}))
    ctx.note("extra_rules", sorted({dict(k)["rule_id"] for k in extra}))
    ctx.require("parallel-equals-sequential", not missing and not extra,
                missing=[dict(k)["rule_id"] + "@" + Path(dict(k)["file_path"]).name for k in missing][:6],
                extra=[dict(k)["rule_id"] for k in extra][:6])
    ctx.require("same-exit-code", bool(seq) == bool(par))


def make_h_api(nmax):
    def h(ctx):
        import src.orchestrator.core as core
        d = _proj()
        n = ctx.pick("nfiles", nmax)
        files = [d / "src" / x for x in ORDER[:n]]
        given = ctx.flag("workers_given")
        w = ctx.int("max_workers", 1, 16) if given else None
        perm_idx = ctx.choice("completion_order", min(6, max(1, _fact(min(n, 3)))))
        saved = (core.ProcessPoolExecutor, core.as_completed, core.multiprocessing)
        took = {"parallel": False}

        def scripted_as_completed(futs):
            took["parallel"] = True
            futs = list(futs)
            head = list(itertools.permutations(range(min(len(futs), 3))))[perm_idx % max(1, _fact(min(len(futs), 3)))]
            order = [futs[i] for i in head] + futs[len(head):]
            if perm_idx % 2:
                order = order[:len(head)] + order[len(head):][::-1]
            return iter(order)

        class MP:
            @staticmethod
            def cpu_count():
                return ctx.values_cpu

        try:
            core.ProcessPoolExecutor, core.as_completed = InProcessExecutor, scripted_as_completed
            if not given:
                ctx.values_cpu = ctx.int("cpu_count", 1, 16)
                core.multiprocessing = MP
            par = core.Orchestrator(project_root=d).lint_files_parallel(files, max_workers=w)
        finally:
            core.ProcessPoolExecutor, core.as_completed, core.multiprocessing = saved
        seq = core.Orchestrator(project_root=d).lint_files(files)
        ctx.note("parallel_path_taken", took["parallel"])
        ctx.cover("parallel-path" if took["parallel"] else "sequential-fallback")
        _cmp(ctx, seq, par)
    return h


def _fact(n):
    r = 1
    for i in range(2, n + 1):
        r *= i
    return r


def h_cli_routing(ctx):
    """execute_linting_on_paths(parallel=True) vs (parallel=False) on a directory / file list,
    worker count = symbolic cpu_count through min(DEFAULT_MAX_WORKERS, cpu_count)."""
    import src.orchestrator.core as core
    from src.cli.utils import execute_linting_on_paths
    d = _proj()
    target = ctx.pick("target", ("directory", "files", "dir+files"))
    recursive = ctx.flag("recursive")
    n = int(ctx.int("nfiles", 1, 5))
    paths = {"directory": [d / "src"], "files": [d / "src" / x for x in ORDER[:n]],
             "dir+files": [d / "src" / ORDER[-1], d / "src"]}[target]
    if target == "directory":
        paths = [d / "src"] if recursive else [d]
    saved = (core.ProcessPoolExecutor, core.as_completed, core.multiprocessing)
    took = {"parallel": False}
    cpu = ctx.int("cpu_count", 1, 16)

    def rev_completed(futs):
        took["parallel"] = True
        return iter(list(futs)[::-1])

    class MP:
        @staticmethod
        def cpu_count():
            return cpu
    try:
        core.ProcessPoolExecutor, core.as_completed, core.multiprocessing = InProcessExecutor, rev_completed, MP
        par = execute_linting_on_paths(core.Orchestrator(project_root=d), paths, recursive, True)
    finally:
        core.ProcessPoolExecutor, core.as_completed, core.multiprocessing = saved
    seq = execute_linting_on_paths(core.Orchestrator(project_root=d), paths, recursive, False)
    ctx.note("parallel_path_taken", took["parallel"])
    ctx.cover("parallel-path" if took["parallel"] else "sequential-fallback")
    _cmp(ctx, seq, par)


CONFIGS = {
    # name -> (project .thailint.yaml, explicit --config file or None)
    "project-config": ("dry:\n  enabled: true\n", None),
    "invalid-threshold-in-project-config": ("dry:\n  enabled: true\nnesting:\n  max_nesting_depth: 0\n", None),
    "invalid-magic-limit-in-project-config": ("magic-numbers:\n  max_small_integer: -3\n", None),
    "explicit-config-with-ignore-list": ("dry:\n  enabled: true\n", "ignore:\n  - 'src/extra0*.py'\n  - 'src/dup1.py'\ndry:\n  enabled: true\n"),
    "explicit-config-invalid-threshold": ("dry:\n  enabled: true\n", "nesting:\n  max_nesting_depth: -1\n"),
    "language-sections-python-stricter": ("nesting:\n  max_nesting_depth: 4\n  python:\n    max_nesting_depth: 2\nsrp:\n  max_methods: 7\n  python:\n    max_methods: 3\n"
                                          "magic-numbers:\n  max_small_integer: 10\n  python:\n    allowed_numbers: [7001, 7002]\n", None),
    "language-sections-typescript-stricter": ("nesting:\n  max_nesting_depth: 4\n  typescript:\n    max_nesting_depth: 2\n  rust:\n    max_nesting_depth: 9\n"
                                              "srp:\n  max_methods: 7\n  typescript:\n    max_methods: 3\n", None),
    "non-numeric-threshold-in-project-config": ("nesting:\n  max_nesting_depth: \"3\"\nsrp:\n  max_methods: many\n", None),
    "project-ignore-list": ("ignore:\n  - 'src/extra1*.py'\n  - 'src/strg2.py'\ndry:\n  enabled: true\n", None),
}


def h_cli_configs(ctx):
    """The whole command (CliRunner), with and without --parallel, under configurations that make a run
    fail or drop files: the exit code and the JSON report must be the same."""
    import json
    import src.orchestrator.core as core
    import src.linter_config.ignore as ign
    from click.testing import CliRunner
    from src.cli_main import cli
    cfg = ctx.pick("configuration", tuple(CONFIGS))
    cmd = ctx.pick("command", ("nesting", "magic-numbers", "dry", "improper-logging", "stringly-typed", "srp"))
    cpu = ctx.pick("cpu_count", (2, 16))
    src = _proj()
    d = Path(tempfile.mkdtemp(prefix="c07cfg-"))
    saved = (core.ProcessPoolExecutor, core.as_completed, core.multiprocessing)
    took = {"parallel": False}

    def rev_completed(futs):
        took["parallel"] = True
        return iter(list(futs)[::-1])

    class MP:
        @staticmethod
        def cpu_count():
            return cpu
    try:
        shutil.copytree(src / "src", d / "src")
        (d / ".git").mkdir()
        project_cfg, explicit = CONFIGS[cfg]
        (d / ".thailint.yaml").write_text(project_cfg)
        args = [cmd, "--format", "json"]
        if explicit is not None:
            (d / "custom.yaml").write_text(explicit)
            args += ["--config", str(d / "custom.yaml")]
        ign.clear_ignore_parser_cache()
        seq = CliRunner().invoke(cli, args + [str(d / "src")])
        try:
            core.ProcessPoolExecutor, core.as_completed, core.multiprocessing = InProcessExecutor, rev_completed, MP
            ign.clear_ignore_parser_cache()
            par = CliRunner().invoke(cli, args + ["--parallel", str(d / "src")])
        finally:
            core.ProcessPoolExecutor, core.as_completed, core.multiprocessing = saved
    finally:
        shutil.rmtree(d, True)
        ign.clear_ignore_parser_cache()

    def report(r):
        try:
            doc = json.loads(r.output[r.output.index("{"):])
            return Counter((v["rule_id"], Path(v["file_path"]).name, v["line"], v["column"], v["message"].replace(str(d), "")) for v in doc["violations"])
        except (ValueError, KeyError):
            return None
    ctx.note("parallel_path_taken", took["parallel"])
    ctx.cover("parallel-path" if took["parallel"] else "sequential-fallback")
    ctx.require("same-exit-code", seq.exit_code == par.exit_code, sequential=seq.exit_code, parallel=par.exit_code,
                seq_out=seq.output[-160:], par_out=par.output[-160:])
    rs, rp = report(seq), report(par)
    if seq.exit_code in (0, 1):
        ctx.require("parallel-equals-sequential", rs is not None and rs == rp,
                    only_sequential=[list(k)[:3] for k in list((rs or Counter()) - (rp or Counter()))[:5]],
                    only_parallel=[list(k)[:3] for k in list((rp or Counter()) - (rs or Counter()))[:5]])


def h_real_pool(ctx):
    """The real ProcessPoolExecutor / as_completed (no stubs): a bridge run validating the in-process executor stub."""
    import src.orchestrator.core as core
    d = _proj()
    n = ctx.pick("nfiles", (4, 12, 36))
    w = ctx.pick("max_workers", (None, 2, 6))
    files = [d / "src" / x for x in ORDER[:n]]
    par = core.Orchestrator(project_root=d).lint_files_parallel(files, max_workers=w)
    seq = core.Orchestrator(project_root=d).lint_files(files)
    eff = w or min(core.DEFAULT_MAX_WORKERS, __import__("multiprocessing").cpu_count())
    took = n >= 2 * eff
    ctx.note("parallel_path_taken", took)
    ctx.cover("parallel-path" if took else "sequential-fallback")
    _cmp(ctx, seq, par)


def h_roundtrip(ctx):
    from src.core.types import Severity, Violation
    line, col = ctx.int("line"), ctx.int("column")
    sug = ctx.pick("suggestion", (None, "", "do x", "é\n\"q\""))
    msg = ctx.pick("message", ("m", "", "multi\nline ✓"))
    path = ctx.pick("path", ("a.py", "/abs/dir with space/é.ts"))
    v = Violation(rule_id="dry.duplicate-code", file_path=path, line=line, column=col, message=msg,
                  severity=Severity.ERROR, suggestion=sug)
    w = Violation.from_dict(v.to_dict())
    ctx.require("round-trip-every-field", And(w.rule_id == v.rule_id, w.file_path == path, Eq(w.line, line),
                                              Eq(w.column, col), w.message == msg, w.severity is Severity.ERROR,
                                              w.suggestion == sug, type(w.suggestion) is type(sug)))


ASSUMPTIONS = (
    "ProcessPoolExecutor is replaced by an in-process executor (work items are isolated from the parent's rule objects, as _lint_file_worker guarantees)",
    "as_completed is scripted: completion order is a permutation chosen by the solver-managed choice variable",
    "multiprocessing.cpu_count returns a symbolic integer in [1,16] when max_workers is not given",
)


def obligations(tier):
    nmax = (0, 1, 2, 3, 4, 6, 8, 10, 20, 35) if tier == "quick" else tuple(range(0, 13)) + (15, 16, 17, 18, 19, 20, 21, 24, 31, 32, 33, 34, 35, 36)
    return [
        Ob(name="K1-lint_files_parallel-vs-lint_files", engine="pathex", harness=make_h_api(nmax),
           functions=["Orchestrator.lint_files_parallel", "_execute_parallel_linting", "_lint_file_worker",
                      "_collect_parallel_results", "_extract_violations_from_future", "_finalize_rules",
                      "Orchestrator.lint_files", "Violation.to_dict/from_dict", "all registered rules (incl. sqlite-backed dry, stringly-typed)"],
           bounds="max_workers in [1,16] symbolic (or None with cpu_count in [1,16] symbolic); number of files in %s "
                  "(forked; 2 x workers threshold on both sides for every worker count); completion order over permutations of the first 3 futures + reversal of the rest (forked)" % (nmax,),
           timeout=600, workers=14, must_cover=("parallel-path", "sequential-fallback"),
           stubs=("InProcessExecutor for ProcessPoolExecutor", "scripted as_completed", "cpu_count symbolic")),
        Ob(name="K1b-cli-routing-parallel-flag", engine="pathex", harness=h_cli_routing,
           functions=["src.cli.utils.execute_linting_on_paths", "separate_files_and_dirs",
                      "Orchestrator.lint_directory_parallel", "lint_directory", "lint_files_parallel", "_collect_files_fast"],
           bounds="cpu_count in [1,16] symbolic; target in {directory, files(1..5), dir+files}; recursive flag",
           timeout=600, workers=14, must_cover=("parallel-path", "sequential-fallback"),
           stubs=("InProcessExecutor", "reversed as_completed", "cpu_count symbolic")),
        Ob(name="K1c-cli-configurations", engine="pathex", harness=h_cli_configs,
           functions=["thailint <command> [--config F] [--parallel] (in-process CLI)", "load_config_file/_apply_repo_ignores_from_config",
                      "Orchestrator.lint_directory_parallel/_execute_parallel_linting/_lint_file_worker/_extract_violations_from_future", "_safe_check_rule"],
           bounds="forked: %d configurations (valid, documented-invalid thresholds, top-level ignore lists in the project file and in an explicit --config file) x 5 commands x cpu_count in {2, 16}" % len(CONFIGS),
           timeout=600, workers=14, must_cover=("parallel-path",),
           stubs=("InProcessExecutor", "reversed as_completed", "cpu_count stub")),
        Ob(name="Br-real-process-pool", engine="pathex", harness=h_real_pool,
           functions=["Orchestrator.lint_files_parallel with the real concurrent.futures.ProcessPoolExecutor / as_completed"],
           bounds="forked (validation bridge, nothing symbolic): 4 / 12 / 36 files x max_workers in {None, 2, 6}; real worker processes, real completion order",
           timeout=600, workers=1, must_cover=("parallel-path",)),
        Ob(name="K2-violation-dict-round-trip", engine="pathex", harness=h_roundtrip,
           functions=["Violation.to_dict", "Violation.from_dict"],
           bounds="line, column unbounded integers (symbolic); suggestion in {None, '', text, unicode}; message/path tables",
           timeout=60, workers=2),
    ]
