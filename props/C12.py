"""C12 — every violation points at a real location of the construct it describes."""
from __future__ import annotations

import atexit
import os
import re
import shutil
import tempfile
from pathlib import Path

from vsym import triggers
from vsym.nodes import Duck
from vsym.pathex import And, Eq, Implies, Not, Or
from vsym.repo import mkctx
from vsym.runner import Ob


# ------------------------------------------------------------------ K1: symbolic positions
def h_positions(ctx):
    """Row/column arithmetic of the tree-sitter based analyzers on duck nodes whose start_point is symbolic."""
    site = ctx.pick("site", ("nesting-ts-builder", "nesting-rust-builder", "unwrap-call", "clone-call", "blocking-call",
                             "magic-ts-literal", "magic-rust-literal", "srp-rust-struct", "srp-ts-class"))
    row = ctx.int("row", 0)
    col = ctx.int("col", 0)
    c = mkctx("rust" if "rust" in site or site in ("unwrap-call", "clone-call", "blocking-call") else "typescript", "x\n")
    line = colv = None
    if site in ("nesting-ts-builder", "nesting-rust-builder"):
        from src.linters.nesting.config import NestingConfig
        from src.linters.nesting.violation_builder import NestingViolationBuilder
        b = NestingViolationBuilder("nesting.excessive-depth")
        node = Duck("function_item", "fn f() {}", start=(row, col))
        f = b.create_typescript_nesting_violation if "ts" in site else b.create_rust_nesting_violation
        v = f((node, "f"), 5, NestingConfig(), c)
        line, colv = v.line, v.column
    elif site == "unwrap-call":
        from src.linters.unwrap_abuse.rust_analyzer import RustUnwrapAnalyzer
        call = Duck("call_expression", "x.unwrap()", [Duck("field_expression", "x.unwrap", [Duck("identifier", "x"), Duck("field_identifier", "unwrap")])],
                    start=(row, col))
        root = Duck("source_file", "", [call])
        calls = []
        RustUnwrapAnalyzer()._find_unwrap_recursive(root, "x.unwrap()\n", calls)
        ctx.require("call-found", len(calls) == 1)
        if len(calls) != 1:
            return
        line, colv = calls[0].line, calls[0].column
    elif site == "clone-call":
        from src.linters.clone_abuse.rust_analyzer import RustCloneAnalyzer
        inner = Duck("call_expression", "x.clone()", [Duck("field_expression", "x.clone", [Duck("identifier", "x"), Duck("field_identifier", "clone")])])
        call = Duck("call_expression", "x.clone().clone()", [Duck("field_expression", "x.clone().clone", [inner, Duck("field_identifier", "clone")])],
                    start=(row, col))
        root = Duck("source_file", "", [call])
        calls = []
        RustCloneAnalyzer()._find_clone_recursive(root, "x.clone().clone()\n", calls)
        outer = [k for k in calls if k.pattern == "clone-chain"]
        ctx.require("call-found", len(outer) == 1)
        if len(outer) != 1:
            return
        line, colv = outer[0].line, outer[0].column
    elif site == "blocking-call":
        ctx.assume(False)     # needs a full scoped_identifier tree; covered with the parser in the loop (K2)
    elif site in ("magic-ts-literal", "magic-rust-literal"):
        if "ts" in site:
            from src.linters.magic_numbers.typescript_analyzer import TypeScriptMagicNumberAnalyzer as A
            node = Duck("number", "3975", start=(row, col))
        else:
            from src.linters.magic_numbers.rust_analyzer import RustMagicNumberAnalyzer as A
            node = Duck("integer_literal", "3975", start=(row, col))
        root = Duck("program", "", [node])
        lits = A().find_numeric_literals(root)
        ctx.require("literal-found", len(lits) == 1 and lits[0][1] == 3975)
        line = lits[0][2]
    elif site == "srp-rust-struct":
        from src.linters.srp.config import SRPConfig
        from src.linters.srp.rust_analyzer import RustSRPAnalyzer
        ctx.assume(row <= 4)
        node = Duck("struct_item", "struct S {}", [Duck("type_identifier", "S")], start=(row, col), end=(row, col))
        m = RustSRPAnalyzer().analyze_struct(node, [], "\n\n\n\n\nstruct S {}\n", SRPConfig())
        line, colv = m["line"], m["column"]
    else:
        from src.linters.srp.config import SRPConfig
        from src.linters.srp.typescript_analyzer import TypeScriptSRPAnalyzer
        ctx.assume(row <= 4)       # the source text is sliced by row: bounded, enumerated by forking
        node = Duck("class_declaration", "class S {}", [Duck("type_identifier", "S"), Duck("class_body", "{}")], start=(row, col), end=(row, col))
        m = TypeScriptSRPAnalyzer().analyze_class(node, "\n\n\n\n\nclass S {}\n", SRPConfig())
        line, colv = m["line"], m.get("column", col)
    ctx.cover(site)
    ctx.require("line-is-one-based-row", Eq(line, row + 1), site=site)
    ctx.require("line-at-least-one", line >= 1, site=site)
    if colv is not None:
        ctx.require("column-is-the-node-column", Eq(colv, col), site=site)
        ctx.require("column-non-negative", colv >= 0, site=site)


# ------------------------------------------------------------------ K2: constructs at offsets, parser in the loop
WRAP = {
    "python": lambda body: ["class Outer:", "    tag = 'o'", ""] + ["    " + l if l else l for l in body],
    "typescript": lambda body: ["namespace Outer {"] + ["  " + l if l else l for l in body] + ["}"],
    "javascript": lambda body: ["{"] + ["  " + l if l else l for l in body] + ["}"],
    "rust": lambda body: ["mod outer {"] + ["    " + l if l else l for l in body] + ["}"],
}
WRAP_OFFSET = {"python": 3, "typescript": 1, "javascript": 1, "rust": 1}
SKIP = {"lazy.py", "cqs.py"}
# constructs that span several lines: the reported line must be the construct's own line
EXTRA = {
    "magic-continuation.ts": ("typescript", "magic-numbers.numeric-literal", 3,
                              "function wait(backoff: any) {\n  const delay = backoff(\n    3975,\n    'x'\n  );\n  return delay;\n}\n"),
    "magic-continuation.js": ("javascript", "magic-numbers.numeric-literal", 3,
                              "function area(w) {\n  const total = w +\n    3975;\n  return total;\n}\n"),
    "magic-continuation.py": ("python", "magic-numbers.numeric-literal", 3,
                              "def wait(backoff):\n    delay = backoff(\n        3975,\n        'x',\n    )\n    return delay\n"),
    "nest-multiline-header.py": ("python", "nesting.excessive-depth", 2,
                                 "@decorate\ndef deep(\n    a,\n    b,\n):\n    for i in a:\n        if i:\n            while b:\n                if i > b:\n                    with open('f') as fh:\n                        b = b - i\n    return b\n"),
}
# a call at the end of a multi-line method chain: the first line of the chain and the line of the method name are
# both defensible positions (a tuple of acceptable lines); whichever is reported, a quoted source line must be that line
EXTRA.update({
    "unwrap-multiline-chain.rs": ("rust", "unwrap-abuse", (2, 4),
                                  "fn port(settings: &Settings) -> u16 {\n    let value = settings\n        .get(\"port\")\n        .unwrap();\n    value\n}\n"),
    "clone-multiline-chain.rs": ("rust", "clone-abuse", (3, 5),
                                 "fn copy(items: &Vec<String>) {\n    for it in items {\n        let kept = it\n            .clone()\n            .clone();\n        drop(kept);\n    }\n}\n"),
})
# many multi-byte characters before the construct on its own line: byte offsets overtake character positions
_ACC = "\u00e9" * 30
EXTRA.update({
    "nonascii-prefix.rs": ("rust", "unwrap-abuse", 2, "fn port(y: Option<u16>) -> u16 {\n    /* %s */ let v = y.unwrap();\n    v\n}\n" % _ACC),
    "nonascii-prefix.py": ("python", "improper-logging", 2, "def show(x):\n    s = \"%s\"; print(x)\n    return s\n" % _ACC),
    "nonascii-prefix.ts": ("typescript", "magic-numbers.numeric-literal", 2, "function wait(q: number): number {\n  const s = \"%s\"; return q * 3975;\n}\n" % _ACC),
})
# decorated constructs: the class / function header is the line carrying the keyword and the name, not the decorator
EXTRA.update({
    "srp-decorated.py": ("python", "srp", 4, "import functools\n\n@functools.total_ordering\nclass OrderManager:\n    def run(self):\n        return 1\n"),
    "srp-decorated-multiline.py": ("python", "srp", 6, "import dataclasses\n\n@dataclasses.dataclass(\n    frozen=True,\n)\nclass OrderHelper:\n    x: int = 0\n"),
    "srp-decorated.ts": ("typescript", "srp", 2, "@Injectable()\nclass UserManager {\n  run() {\n    return 1;\n  }\n}\n"),
    "srp-decorated-exported.ts": ("typescript", "srp", 2, "@Injectable()\nexport class UserHandler {\n  run() {\n    return 1;\n  }\n}\n"),
})
# a finding about one word of the module header: its line is the line of that word, not its offset inside the header text
EXTRA.update({
    "header-temporal-word.py": ("python", "file-header", 7, "#!/usr/bin/env python\n# tool\n\n\"\"\"\nPurpose: does things\n\nScope: currently everything\n\"\"\"\nx = 1\n"),
})
# a suppression comment below a line that holds a form feed inside a comment (str.splitlines() would count one line more)
EXTRA.update({
    "lazy-below-page-break.py": ("python", "lazy-ignores", 6, "\"\"\"\nPurpose: x\n\"\"\"\nA = 1  # section\x0c break\nB = 2\nimport os  # noqa\n"),
})
# a float literal with many significant digits: the message quotes the literal, not a rounded rendering of it
EXTRA.update({
    "magic-long-float.py": ("python", "magic-numbers.numeric-literal", 2, "def area(radius):\n    return radius * radius * 3.14159265\n"),
    "magic-long-float.ts": ("typescript", "magic-numbers.numeric-literal", 2, "function speed(t: number): number {\n  return t * 299792.458;\n}\n"),
    "magic-long-float.rs": ("rust", "magic-numbers.numeric-literal", 2, "fn turn(r: f64) -> f64 {\n    r * 6.283185307\n}\n"),
})
NOT_WRAPPED = ("stateless.py", "header-temporal-word.py", "lazy-below-page-break.py")
_P = {}
_TIER = {"t": "quick"}


def _proj():
    if _P.get("pid") != os.getpid():
        _P["pid"] = os.getpid()
        d = tempfile.mkdtemp(prefix="c12proj-")
        atexit.register(shutil.rmtree, d, True)
        (Path(d) / ".git").mkdir()
        # a placement rule that every file breaks: whole-file findings must carry a position inside the file too
        (Path(d) / ".thailint.yaml").write_text(triggers.BASE_CONFIG + "file-placement:\n  global_deny:\n    - pattern: '.*'\n      reason: nothing belongs here\n")
        (Path(d) / "src").mkdir()
        _P["d"] = Path(d)
    return _P["d"]


def h_offsets(ctx):
    import src.linter_config.ignore as ign
    from src.orchestrator.core import Orchestrator
    names = tuple(n for n in triggers.T if n not in SKIP) + ("dup",) + tuple(EXTRA)
    tname = ctx.pick("trigger", names)
    d = _proj()
    nprep = ctx.pick("prepended_lines", (0, 1, 3, 6) if _TIER["t"] == "quick" else (0, 1, 2, 3, 4, 6, 9, 15))
    pre_style = ctx.pick("prepended_style", ("comment+blank", "blank-only")) if nprep else "comment+blank"
    wrapped = ctx.flag("wrapped_one_level_deeper")
    trailing_nl = ctx.flag("trailing_newline")
    crlf = False
    if tname == "dup":
        lang, prefix, vline = "python", "dry.duplicate-code", 2
        texts = dict(triggers.DUP_FILES)
        main = "dup1.py"
    else:
        lang, prefix, vline, text = triggers.T[tname] if tname in triggers.T else EXTRA[tname]
        texts = {tname: text}
        main = tname
    cm = "#" if lang == "python" else "//"
    files = []
    expected_line = None
    for n, text in texts.items():
        body = text.rstrip("\n").split("\n")
        off = 0
        if wrapped and n == main and not (lang == "python" and tname in NOT_WRAPPED):
            body = WRAP[lang](body)
            off += WRAP_OFFSET[lang]
        if n == main:
            pre = [(cm + " filler comment %d" % i) if (i % 2 == 0 and pre_style == "comment+blank") else "" for i in range(nprep)]
            body = pre + body
            off += nprep
            expected_lines = tuple(x + off for x in (vline if isinstance(vline, tuple) else (vline,)))
            expected_line = expected_lines[0]
        content = "\n".join(body) + ("\n" if trailing_nl else "")
        f = d / "src" / n
        f.write_text(content)
        files.append(f)
    main_text = (d / "src" / main).read_text()
    try:
        ign.clear_ignore_parser_cache()
        vs = Orchestrator(project_root=d).lint_files(files)
    finally:
        for f in files:
            f.unlink()
    ctx.note("trigger", tname)
    lines = main_text.split("\n")
    nlines = len(lines) - (1 if main_text.endswith("\n") else 0)
    run_files = {str(f) for f in files}
    def full(v):      # file-placement names files relative to the project root, every other rule the way they were given
        return v.file_path if os.path.isabs(v.file_path) else str(d / v.file_path)
    mine = [v for v in vs if full(v) == str(d / "src" / main)]
    for v in vs:
        ctx.require("names-a-file-of-the-run", full(v) in run_files, got=v.file_path)
    for v in mine:
        if v.rule_id.endswith("syntax-error"):
            continue
        ctx.require("line-within-file", 1 <= v.line <= nlines, rule=v.rule_id, line=v.line, nlines=nlines)
        if 1 <= v.line <= nlines:
            ctx.require("column-within-line", 0 <= v.column <= len(lines[v.line - 1]), rule=v.rule_id, line=v.line, column=v.column,
                        length=len(lines[v.line - 1]))
    stripped = [l.strip() for l in lines]
    for v in mine:
        # a message that ends in a copy of a source line ("...: <code>") must copy the line it reports
        tail = v.message.rsplit(": ", 1)[-1].strip() if ": " in v.message else ""
        if len(tail) >= 6 and tail in stripped and 1 <= v.line <= nlines:
            ctx.require("quoted-source-line-is-the-reported-line", stripped[v.line - 1] == tail, rule=v.rule_id, line=v.line,
                        quoted=tail, reported_line_text=stripped[v.line - 1])
    ctx.require("whole-file-placement-finding-present", any(v.rule_id.startswith("file-placement") for v in mine), trigger=tname)
    own = [v for v in mine if v.rule_id.startswith(prefix)]
    at = [v for v in own if v.line in expected_lines]
    ctx.cover("found" if at else "not-found")
    ctx.require("reported-at-the-line-of-the-construct", len(at) >= 1, trigger=tname, want_line=expected_line,
                got=[(v.rule_id, v.line) for v in own], source=lines[expected_line - 1] if expected_line <= len(lines) else None)
    for v in at:
        src = lines[v.line - 1]
        # the construct's own name is the first quoted identifier; further quoted names (enclosing class,
        # suggested replacement) are context and are not required to sit on the same line
        for name in re.findall(r"'([A-Za-z_][A-Za-z0-9_]*)'", v.message)[:1]:
            ctx.require("quoted-name-occurs-on-that-line", name in src, name=name, line=src, msg=v.message)
        if v.rule_id.startswith("magic-numbers"):
            m = re.search(r"Magic number (\S+)", v.message)
            ctx.require("quoted-literal-occurs-on-that-line", bool(m) and m.group(1) in src, msg=v.message, line=src)


ASSUMPTIONS = (
    "duck-typed nodes mirror the shapes the real grammars produce (the same sites are exercised with the real parsers in K2)",
    "the construct line of each catalogue trigger is the one recorded in the catalogue, shifted by the prepended / wrapper lines",
)


def obligations(tier):
    _TIER["t"] = tier
    return [
        Ob(name="K1-row-column-arithmetic-symbolic", engine="pathex", harness=h_positions,
           functions=["NestingViolationBuilder.create_typescript_nesting_violation/create_rust_nesting_violation", "RustUnwrapAnalyzer._find_unwrap_recursive",
                      "RustCloneAnalyzer._find_clone_recursive", "TypeScriptMagicNumberAnalyzer.find_numeric_literals", "RustMagicNumberAnalyzer.find_numeric_literals",
                      "RustSRPAnalyzer.analyze_struct", "TypeScriptSRPAnalyzer.analyze_class"],
           bounds="node row and column unbounded integers >= 0 (symbolic to the end; row <= 4 where the source is sliced); 8 analyzer/builder sites",
           timeout=120, workers=4, must_cover=("nesting-ts-builder", "unwrap-call", "magic-rust-literal", "srp-rust-struct"),
           stubs=("duck-typed tree-sitter nodes",)),
        Ob(name="K2-constructs-at-offsets", engine="pathex", harness=h_offsets,
           functions=["Orchestrator.lint_files", "every rule's violation builder (line/column), with the real parsers"],
           bounds="forked: %d catalogue triggers (+ the cross-file duplicate) x 0/1/3/6 prepended comment/blank lines x wrapped one level deeper or not x with/without trailing newline" % (len(triggers.T) - len(SKIP)),
           timeout=600, workers=14, must_cover=("found",)),
    ]
