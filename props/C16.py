"""C16 — SRP thresholds.  Real SRPRule.check() (parser in the loop) on generated classes with
the thresholds, switches and per-language overrides symbolic (pathex), plus the pure
evaluate_metrics/SRPConfig kernel with *all* four integers symbolic."""
from __future__ import annotations

import re

from vsym.pathex import And, Or, Not, Eq, If
from vsym.repo import mkctx
from vsym.runner import Ob

LANGS = ("python", "typescript", "javascript", "rust")


# ---------------------------------------------------------------- class generators
def gen_class(lang, name, n_pub, n_priv, extras, blank, comment, start_line, style="plain"):
    """Returns (lines, expected_public_methods, expected_loc, header_line).
    LOC is counted as the documentation says: non-blank, non-comment lines of the class."""
    L = []
    if lang == "python":
        L.append(f"class {name}:")
        L.append("    x = 1")
        if comment:
            L.append("    # a comment line")
        for i in range(n_pub):
            L += [f"    def pub{i}(self):", f"        return {i}"]
            if blank:
                L.append("")
        for i in range(n_priv):
            L += [f"    def _priv{i}(self):", "        return None"]
        pub = n_pub
        if "dunder" in extras:
            L += ["    def __init__(self):", "        self.v = 0"]
        if "property" in extras:
            L += ["    @property", "    def prop(self):", "        return self.x"]
            # the other accessors of a property and a cached property are properties too, not methods
            L += ["    @prop.setter", "    def prop(self, value):", "        self.x = value"]
            L += ["    @functools.cached_property", "    def total(self):", "        return self.x * 2"]
        if "static" in extras:
            L += ["    @staticmethod", "    def stat():", "        return 2"]
            pub += 1
        if "async" in extras:
            L += ["    async def apub(self):", "        return 3"]
            pub += 1
        cmt = "#"
    elif lang in ("typescript", "javascript"):
        L.append({"plain": f"class {name} {{", "abstract": f"abstract class {name} {{", "exported": f"export class {name} {{",
                  "hash-private": f"class {name} {{", "modifier-private": f"class {name} {{",
                  "class-expression": f"const {name} = class {{", "explicit-public": f"class {name} {{"}[style if lang == "typescript" or style in ("hash-private", "class-expression") else "plain"])
        L.append("  x = 1;")
        if comment:
            L.append("  // a comment line")
        if comment:
            L += ["  /* a block comment", "   * with a starred line", "   */"]
            L += ["  /* unit */ y = 2;"]          # code after a closed block comment is code
        for i in range(n_pub):
            pm = "public " if (style == "explicit-public" and lang == "typescript") else ""
            L += [f"  {pm}pub{i}() {{", f"    return {i}", f"      * 2;", "  }"] if (comment and i == 0) else [f"  {pm}pub{i}() {{", f"    return {i};", "  }"]
            if blank:
                L.append("")
        for i in range(n_priv):
            pname = f"#priv{i}" if style == "hash-private" else (f"private priv{i}" if (style == "modifier-private" and lang == "typescript") else f"_priv{i}")
            L += [f"  {pname}() {{", "    return null;", "  }"]
        pub = n_pub
        if "dunder" in extras:
            L += ["  public constructor() {" if (style == "explicit-public" and lang == "typescript") else "  constructor() {", "    this.v = 0;", "  }"]
        if "static" in extras:
            L += ["  static stat() {", "    return 2;", "  }"]
            pub += 1
        if "async" in extras:
            L += ["  async apub() {", "    return 3;", "  }"]
            pub += 1
        L.append("};" if style == "class-expression" else "}")
        cmt = "//"
    else:  # rust: struct + impl blocks
        if style == "generic":
            L += [f"struct {name}<T> {{", "    x: T,", "}", f"impl<T> {name}<T> {{"]
        else:
            L += [f"struct {name} {{", "    x: i32,", "}", f"impl {name} {{"]
        if comment:
            L.append("    // a comment line")
            L.append("    /* unit */ const K: i32 = 2;")
        for i in range(n_pub):
            L += [f"    pub fn pub{i}(&self) -> i32 {{", f"        *self.slot.borrow_mut() = {i};", f"        {i}", "    }"] if (comment and i == 0) \
                else [f"    pub fn pub{i}(&self) -> i32 {{", f"        {i}", "    }"]
            if blank:
                L.append("")
        for i in range(n_priv):
            L += [f"    fn _priv{i}(&self) {{", "    }"]
        L.append("}")
        pub = n_pub
        if "dunder" in extras:   # a trait implemented for the struct: one more impl block of the struct (one method)
            L += [f"impl<T> Describe for {name}<T> {{" if style == "generic" else f"impl Describe for {name} {{", "    fn describe(&self) -> i32 {", "        7", "    }", "}"]
            pub += 1
        if "static" in extras:   # a second impl block for the same struct
            L += [f"impl<T> {name}<T> {{" if style == "generic" else f"impl {name} {{", "    pub fn stat() -> i32 {", "        2", "    }", "}"]
            pub += 1
        cmt = "//"
    loc, in_block = 0, False
    for raw in L:          # documented: non-blank, non-comment lines (a /* ... */ block is a comment)
        st = raw.strip()
        if in_block:
            in_block = "*/" not in st
            continue
        if not st or st.startswith(cmt):
            continue
        if cmt == "//" and st.startswith("/*"):
            if "*/" in st and st.split("*/", 1)[1].strip():
                loc += 1            # code follows the comment on the same line
                continue
            in_block = "*/" not in st
            continue
        loc += 1
    return L, pub, loc, start_line


_WARM = {"python": "class Other:\n    def a(self):\n        return 1\n", "typescript": "class Other {\n  a() {\n    return 1;\n  }\n}\n",
         "rust": "struct Other;\nimpl Other {\n    fn a(&self) -> i64 {\n        1\n    }\n}\n"}


def _run(rule_cls, lang, content, md, warm_lang=None):
    rule = rule_cls()
    if warm_lang:
        # one run = one rule object and one configuration: the file judged is not the first file of the run
        rule.check(mkctx(warm_lang, _WARM[warm_lang], md))
    return rule.check(mkctx(lang, content, md))


def make_harness(tier):
    from src.linters.srp.linter import SRPRule
    npub = (0, 1, 2, 3) if tier == "quick" else (0, 1, 2, 3, 5, 8)
    extras_opts = ((), ("dunder", "property"), ("static",), ("dunder", "static", "async")) \
        if tier == "thorough" else ((), ("dunder", "property", "static"))

    def h(ctx):
        lang = ctx.pick("lang", LANGS)
        nclasses = ctx.pick("nclasses", (1, 2))
        quick = tier == "quick"
        mm = ctx.int("max_methods", 1)
        ml = ctx.int("max_loc", 1)
        ck = ctx.bool("check_keywords")
        cfg = {"max_methods": mm, "max_loc": ml, "check_keywords": ck}
        ov = ctx.pick("override", ("none", "own", "other", "own-partial") if not (quick and nclasses == 2) else ("none",))
        eff_mm, eff_ml = mm, ml
        if ov != "none":
            omm = ctx.int("ov_max_methods", 1)
            oml = ctx.int("ov_max_loc", 1)
            key = lang if ov.startswith("own") else ("rust" if lang != "rust" else "python")
            if ov == "own-partial":
                cfg[key] = {"max_methods": omm}
                eff_mm = omm
            else:
                cfg[key] = {"max_methods": omm, "max_loc": oml}
                if ov == "own":
                    eff_mm, eff_ml = omm, oml
        lines, classes = ["// header" if lang != "python" else "# header", ""], []
        for c in range(nclasses):
            name = ctx.pick(f"name{c}", ("Widget" + str(c), "DataManager" + str(c)))
            small = (c == 1) or (quick and nclasses == 2)
            n_pub = ctx.pick(f"npub{c}", npub if not small else (1, 3))
            n_priv = ctx.pick(f"npriv{c}", (0, 2) if not small else (2,))
            extras = ctx.pick(f"extras{c}", extras_opts if not small else extras_opts[-1:])
            fill = ctx.pick(f"fill{c}", ("plain", "blank+comment") if not small else ("blank+comment",))
            style = ctx.pick(f"style{c}", {"python": ("plain",), "typescript": ("plain", "abstract", "exported", "hash-private", "modifier-private", "class-expression", "explicit-public"),
                                           "javascript": ("plain", "hash-private", "class-expression"), "rust": ("plain", "generic")}[lang]) if (c == 0 and (quick or (ov == "none" and nclasses == 1))) else "plain"
            L, pub, loc, hl = gen_class(lang, name, n_pub, n_priv, extras, fill != "plain",
                                        fill != "plain", len(lines) + 1, style)
            if lang == "python" and c == 1 and (quick or (ov == "none" and classes[0][4] == extras_opts[0])):
                # the class may be defined anywhere a class statement can stand; it is judged like any other class
                # (the enclosing Holder class is not judged: its own line count is a matter of reading)
                place = ctx.pick("placement1", ("top-level", "nested-in-class", "inside-method", "inside-function", "inside-except-block", "inside-match-case"))
                wrap = {"top-level": ([], 0, []),
                        "nested-in-class": (["class Holder:", "    y = 2"], 4, []),
                        "inside-method": (["class Holder:", "    def build(self):"], 8, ["        return 1"]),
                        "inside-function": (["def make():"], 4, ["    return 1"]),
                        "inside-except-block": (["try:", "    import fastmod", "except ImportError:"], 4, []),
                        "inside-match-case": (["match mode:", "    case 1:"], 8, ["    case _:", "        pass"])}[place]
                L = wrap[0] + [(" " * wrap[1] + l) if l else l for l in L] + wrap[2]
                hl += len(wrap[0])
            classes.append((name, pub, loc, hl, extras))
            lines += L + [""]
        warm = None
        if ov != "none" and nclasses == 1 and (not quick or (fill == "plain" and not extras)):
            wk = ctx.pick("earlier_file_in_the_same_run", ("none", "of-the-overridden-language", "of-a-third-language"))
            okey = key if key in _WARM else "typescript"
            base_lang = "typescript" if lang == "javascript" else lang
            if wk == "of-the-overridden-language":
                ctx.assume(okey != base_lang)
                warm = okey
            elif wk == "of-a-third-language":
                warm = next(l for l in ("python", "typescript", "rust") if l not in (base_lang, okey))
        content = "\n".join(lines)
        vs = _run(SRPRule, lang, content, {"srp": cfg}, warm)
        ctx.require("only-srp-violations", all(v.rule_id == "srp.violation" for v in vs))
        for name, pub, loc, hl, _extras in classes:
            mine = [v for v in vs if f"'{name}'" in v.message]
            kw = "Manager" in name
            ctx.cover("reported" if mine else "clean")
            ctx.require("reported-iff-exceeds",
                        Eq(len(mine) >= 1, Or(pub > eff_mm, loc > eff_ml, And(ck, kw))),
                        cls=name, pub=pub, loc=loc)
            ctx.require("one-violation-per-class", len(mine) <= 1, cls=name)
            for v in mine:
                ctx.require("at-class-header", v.line == hl, got=v.line, want=hl)
                msg = v.message
                m1 = re.search(r"(\d+) methods", msg)
                m2 = re.search(r"(\d+) lines", msg)
                ctx.require("msg-methods-iff", Eq(m1 is not None, pub > eff_mm), msg=msg)
                ctx.require("msg-lines-iff", Eq(m2 is not None, loc > eff_ml), msg=msg)
                ctx.require("msg-keyword-iff", Eq("keyword" in msg, And(ck, kw)), msg=msg)
                if m1:
                    ctx.require("msg-true-method-count", int(m1.group(1)) == pub, msg=msg, want=pub)
                    ctx.require("msg-states-limit", f"(max: {eff_mm})" in msg, msg=msg)
                if m2:
                    ctx.require("msg-true-loc", int(m2.group(1)) == loc, msg=msg, want=loc)
                    ctx.require("msg-states-limit", f"(max: {eff_ml})" in msg, msg=msg)
    return h


def h_kernel(ctx):
    """evaluate_metrics + SRPConfig.from_dict with every integer symbolic."""
    from src.linters.srp.config import SRPConfig
    from src.linters.srp.metrics_evaluator import evaluate_metrics
    m = ctx.int("method_count", 0)
    loc = ctx.int("loc", 0)
    mm = ctx.int("max_methods")
    ml = ctx.int("max_loc")
    ck = ctx.bool("check_keywords")
    kw = ctx.bool("has_keyword")
    lang = ctx.pick("lang", ("python", "typescript", "rust", None))
    ov = ctx.pick("override_for", ("none", "python", "rust"))
    d = {"max_methods": mm, "max_loc": ml, "check_keywords": ck}
    emm, eml = mm, ml
    if ov != "none":
        omm, oml = ctx.int("ov_mm"), ctx.int("ov_ml")
        d[ov] = {"max_methods": omm, "max_loc": oml}
        if ov == lang:
            emm, eml = omm, oml
    try:
        cfg = SRPConfig.from_dict(d, language=lang)
    except ValueError:
        ctx.cover("invalid")
        ctx.require("invalid-iff-nonpositive", Or(emm <= 0, eml <= 0))
        return
    ctx.require("valid-iff-positive", And(emm > 0, eml > 0))
    issues = evaluate_metrics({"method_count": m, "loc": loc, "has_keyword": kw}, cfg)
    ctx.cover("issues" if issues else "clean")
    ctx.require("issues-iff", Eq(len(issues) > 0, Or(m > emm, loc > eml, And(ck, kw))))
    ctx.require("methods-issue-iff", Eq(any("methods" in i for i in issues), m > emm))
    ctx.require("lines-issue-iff", Eq(any("lines" in i for i in issues), loc > eml))
    ctx.require("keyword-issue-iff", Eq(any("keyword" in i for i in issues), And(ck, kw)))
    ctx.require("count", Eq(len(issues), If(m > emm, 1, 0) + If(loc > eml, 1, 0) + If(And(ck, kw), 1, 0)))


def h_member_kinds(ctx):
    """Which members count as public methods, with the kind of every member a solver variable over the whole grammar."""
    from vsym.nodes import Duck
    from vsym.pathex import If
    from vsym.symkind import SKind, kind_table, symbolic_tables
    lang = ctx.pick("grammar", ("typescript", "rust"))
    table = kind_table(lang)
    n = 3
    kinds = [SKind(ctx, f"member{i}_kind", table) for i in range(n)]
    names = [ctx.pick(f"member{i}_name", ("run", "_helper", "constructor", "new")) for i in range(n)]
    if lang == "typescript":
        import src.linters.srp.typescript_metrics_calculator as mod
        members = [Duck(kinds[i], "", [Duck("property_identifier", names[i])]) for i in range(n)]
        cls = Duck("class_declaration", "", [Duck("type_identifier", "S"), Duck("class_body", "", members)])
        with symbolic_tables(mod):
            got = mod.count_methods(cls)
        want = 0
        for i in range(n):
            ok = names[i] not in ("constructor",) and not names[i].startswith("_")
            want = want + If(And(kinds[i] == "method_definition", ok), 1, 0)
    else:
        import src.linters.srp.rust_analyzer as mod
        members = [Duck(kinds[i], "", [Duck("identifier", names[i])]) for i in range(n)]
        impl = Duck("impl_item", "", [Duck("type_identifier", "S"), Duck("declaration_list", "", members)])
        with symbolic_tables(mod, mod.RustSRPAnalyzer):
            got = mod.RustSRPAnalyzer().count_impl_methods(impl)
        want = 0
        for i in range(n):
            want = want + If(And(kinds[i] == "function_item", not names[i].startswith("_")), 1, 0)
    ctx.cover("some-counted" if (bool(got > 0) if hasattr(got, "z") else got > 0) else "none-counted")
    ctx.require("exactly-the-public-method-kinds-are-counted", Eq(got, want), grammar=lang, names=names)


ASSUMPTIONS = (
    "thresholds declared >= 1 in the whole-rule harness (non-positive values are C05's subject; the kernel harness covers them)",
    "lines of code = non-blank, non-comment lines of the class/struct+impl text, as documented",
)


def obligations(tier):
    quick = tier == "quick"
    return [
        Ob(name="K1-evaluate-metrics", engine="pathex", harness=h_kernel,
           functions=["src.linters.srp.metrics_evaluator.evaluate_metrics",
                      "src.linters.srp.config.SRPConfig.from_dict", "SRPConfig.__post_init__"],
           bounds="method_count, loc >= 0 and all four thresholds unbounded integers (symbolic to the end); "
                  "check_keywords, has_keyword symbolic; language x override-section forked",
           timeout=120, workers=4, must_cover=("invalid", "issues", "clean")),
        Ob(name="K2-rule-on-generated-classes", engine="pathex", harness=make_harness(tier),
           functions=["src.linters.srp.linter.SRPRule.check", "SRPRule._build_violations_from_metrics",
                      "ClassAnalyzer.analyze_python/typescript/rust", "heuristics.count_methods/count_loc",
                      "typescript_metrics_calculator.count_methods/count_loc",
                      "RustSRPAnalyzer.analyze_struct", "load_linter_config", "SRPConfig.from_dict",
                      "evaluate_metrics", "srp.ViolationBuilder.build_violation"],
           bounds=("max_methods, max_loc, overrides >= 1 unbounded (symbolic to the end), check_keywords symbolic; "
                   "forked: language (4), 1-2 classes, public methods in %s, private 0/2, member kinds, "
                   "blank/comment filler, override placement (none/own/other language/partial)"
                   % ("0..3" if quick else "{0,1,2,3,5,8}")),
           timeout=240 if quick else 1500, workers=14, must_cover=("reported", "clean"),
           outside="TS private/#private/getter members, Rust non-pub non-underscore fns and trait impls (documentation does not say), docstrings"),
        Ob(name="K3-member-kinds-whole-grammar", engine="pathex", harness=h_member_kinds,
           functions=["typescript_metrics_calculator.count_methods/_is_countable_method/_get_method_name", "RustSRPAnalyzer.count_impl_methods/_is_countable_method"],
           bounds="3 members whose kinds are solver variables over the complete kind table of the grammar (TS 383 / Rust 355 kinds, symbolic to the end); member names from {run, _helper, constructor, new}",
           timeout=200, workers=8, must_cover=("some-counted", "none-counted"), stubs=("duck-typed tree-sitter nodes", "symbolic_tables wrapper")),
    ]
