"""C04 — suppression directives silence exactly what they name, in every linter."""
from __future__ import annotations

import atexit
import os
import re
import shutil
import tempfile
from collections import Counter
from pathlib import Path

from vsym import catalogue, triggers
from vsym.pathex import And, Eq, Implies, Not, Or
from vsym.runner import Ob

ALIASES_FOR = {"improper-logging.print-statement": "print-statements.detected"}


def spellings(rule_id):
    """name -> text for the documented rule-name spellings of `rule_id`."""
    prefix = rule_id.split(".")[0]
    out = {"full": rule_id, "prefix": prefix, "wildcard": prefix + ".*"}
    return out


def apply_case(text, mode):
    if mode == "lower":
        return text
    if mode == "upper":
        return text.upper()
    if mode == "title":
        return text.title()
    return "".join(c.upper() if i % 2 else c for i, c in enumerate(text))


CASES = ("lower", "upper", "title", "alternating")


# ------------------------------------------------------------------ K1 rule-name matching
def h_rule_names(ctx):
    from src.core.rule_aliases import RULE_ID_ALIASES
    from src.linter_config.rule_matcher import check_bracket_rules, check_space_separated_rules, rule_matches, rules_match_violation
    universe = catalogue.rule_id_universe()
    rid = ctx.pick("rule", universe)
    prefix = rid.split(".")[0]
    kinds = ["full", "prefix", "other-full", "other-prefix", "other-wildcard", "longer-prefix", "shorter-prefix"]
    if "." in rid:    # `prefix.*` for an id that has no dotted part is not a documented spelling
        kinds.append("wildcard")
    deprecated = [d for d, c in RULE_ID_ALIASES.items() if c == rid]
    if deprecated:
        kinds += ["alias-full", "alias-prefix", "alias-wildcard"]
    kind = ctx.pick("spelling", kinds)
    case = ctx.pick("case", CASES)
    other = next(u for u in universe if u.split(".")[0] != prefix and "." in u)
    if kind in ("full", "prefix", "wildcard"):
        text, want = spellings(rid)[kind], True
    elif kind.startswith("other"):
        text, want = spellings(other)[kind[6:]], False
    elif kind == "longer-prefix":
        text, want = prefix + "x", False
    elif kind == "shorter-prefix":
        text, want = prefix[:-1], False
    else:
        d = deprecated[0]
        text, want = spellings(d)[kind[6:]], True
    pat = apply_case(text, case)
    entry = ctx.pick("entry", ("rule_matches", "bracket", "bracket-list", "space-separated", "block-set"))
    if entry == "rule_matches":
        got = rule_matches(rid, pat)
    elif entry == "bracket":
        got = check_bracket_rules(pat, rid)
    elif entry == "bracket-list":
        got = check_bracket_rules("zzz-no-such-rule, " + pat + " ,yyy", rid)
    elif entry == "space-separated":
        got = check_space_separated_rules("zzz-no-such-rule " + pat, rid)
    else:
        got = rules_match_violation({pat, "zzz"}, rid)
    ctx.cover("match" if got else "no-match")
    ctx.require("spelling-matches-iff-it-names-the-rule", got == want, rule=rid, pattern=pat, got=got, want=want)


# ------------------------------------------------------------------ K2 directive scope
RULE = "magic-numbers.numeric-literal"
OTHER = "nesting.excessive-depth"


def _directive(form, style, tool, name):
    c = style + " " + tool + ": "
    return {"same-line": c + f"ignore[{name}]", "same-line-bare": c + "ignore", "next-line": c + f"ignore-next-line[{name}]",
            "block-start": c + f"ignore-start {name}", "block-end": c + "ignore-end",
            "block-bracket-start": c + f"ignore-start[{name}]",
            "file": c + f"ignore-file[{name}]", "file-bare": c + "ignore-file",
            # the space-separated spellings the documentation also uses
            "same-line-space": c + f"ignore {name}", "file-space": c + f"ignore-file {name}",
            "next-line-space": c + f"ignore-next-line {name}"}[form]


def make_h_scope(nlines):
    def h(ctx):
        from src.core.types import Violation
        from src.linter_config.ignore import IgnoreDirectiveParser
        form = ctx.pick("form", ("same-line", "same-line-bare", "next-line", "next-line-space", "block", "block-bracket", "file", "file-bare", "none"))
        bracket_block, form = form == "block-bracket", form.replace("-bracket", "")
        space_next, form = form == "next-line-space", form.replace("-space", "")
        style = ctx.pick("style", ("#", "//"))
        tool = ctx.pick("tool", ("thailint", "design-lint"))
        names = ctx.pick("names", ("own-prefix", "own-full-upper", "other-rule"))
        name = {"own-prefix": "magic-numbers", "own-full-upper": RULE.upper(), "other-rule": "nesting"}[names]
        n = nlines if form not in ("file", "file-bare") else max(nlines, 12)      # the ten-line header boundary is always inside
        lines = ["x%d = compute(%d)" % (i, i) for i in range(1, n + 1)]
        p = ctx.pick("pos", tuple(range(1, n + 1)))
        v = ctx.int("violation_line", 1, n)
        e = None
        if form in ("same-line", "same-line-bare"):
            lines[p - 1] += "  " + _directive(form, style, tool, name)
        elif form == "next-line":
            lines[p - 1] = _directive("next-line-space" if space_next else form, style, tool, name)
        elif form == "block":
            e = ctx.pick("end", tuple(range(1, n + 1)))
            ctx.assume(e > p)
            lines[p - 1] = _directive("block-bracket-start" if bracket_block else "block-start", style, tool, name)
            lines[e - 1] = _directive("block-end", style, tool, name)
        elif form in ("file", "file-bare"):
            lines[p - 1] = _directive(form, style, tool, name)
        # optionally a SECOND directive that names another rule: it must change nothing
        second = ctx.pick("second_directive", ("none", "next-line[other]-on-previous-line", "same-line[other]-appended", "block[other]-around-everything",
                                               "file[other]-on-line-1", "inner-block[other]-nested-right-after-the-start"))
        if second == "next-line[other]-on-previous-line" and p >= 2 and form in ("same-line", "same-line-bare", "none"):
            if "thailint" in lines[p - 2] or "design-lint" in lines[p - 2]:
                ctx.assume(False)
            lines[p - 2] = _directive("next-line", style, tool, "nesting")
        elif second == "same-line[other]-appended" and form in ("next-line", "block", "none"):
            tgt = (p + 1 if form == "next-line" else p + 1) if form != "none" else p
            if tgt <= n and "ignore" not in lines[tgt - 1]:
                lines[tgt - 1] += "  " + _directive("same-line", style, tool, "nesting")
        elif second == "block[other]-around-everything" and form in ("same-line", "next-line") and p >= 2 and p < n - 1:
            if "ignore" in lines[0] or "ignore" in lines[n - 1]:
                ctx.assume(False)
            lines[0] = _directive("block-start", style, tool, "nesting")
            lines[n - 1] = _directive("block-end", style, tool, "nesting")
        elif second == "inner-block[other]-nested-right-after-the-start" and form == "block" and e - p >= 4:
            # a complete block for ANOTHER rule inside the block: the outer block stays in force inside and after it
            lines[p] = _directive("block-start", style, tool, "nesting")
            lines[p + 1] = _directive("block-end", style, tool, "nesting")
            ctx.assume(And(v != p + 1, v != p + 2))
        elif second == "file[other]-on-line-1" and form in ("same-line", "next-line", "block") and p >= 2:
            if "ignore" in lines[0]:
                ctx.assume(False)
            lines[0] = _directive("file", style, tool, "nesting")
        elif second != "none":
            ctx.assume(False)
        # a character that str.splitlines() treats as a line break but compilers do not (form feed, VT, FS, NEL, LS) in line 1
        odd = ctx.pick("odd_separator_character_in_line_1", ("none", "\x0c", "\u2028") if nlines <= 8 else ("none", "\x0c", "\x0b", "\x1c", "\x85", "\u2028"))
        if odd != "none":
            if "ignore" in lines[0]:
                ctx.assume(False)
            lines[0] += "  " + style + " page" + odd + "break"
        # the directive written in capitals, and followed by a reason that happens to mention the violation's own rule
        plain = second == "none" and odd == "none" and form != "none" and tool == "thailint" and (names != "own-full-upper" or nlines > 8)
        kw_case = ctx.pick("directive_case", ("as-documented", "capitals")) if plain else "as-documented"
        reason = ctx.pick("reason_after_the_directive", ("none", " - the magic-numbers here are fine", "  @ magic-numbers are fine")) if plain else "none"
        ctx.note("directive_case", kw_case)
        ctx.note("reason", reason)
        if plain:
            marker = style + " " + tool + ":"
            k = next(i for i, l in enumerate(lines) if marker in l)          # the (first) directive line
            head, tail = lines[k].split(marker, 1)
            if kw_case == "capitals":
                tail = tail.upper()
            lines[k] = head + (marker.upper() if kw_case == "capitals" else marker) + tail + ("" if reason == "none" else reason.replace("@", style))
        content = "\n".join(lines) + "\n"
        d = Path(tempfile.gettempdir()) / "c04-scope-project"
        parser = IgnoreDirectiveParser(d)
        viol = Violation(rule_id=RULE, file_path=str(d / "src" / "mod.py"), line=v, column=0, message="m")
        got = parser.should_ignore_violation(viol, content)
        named = names != "other-rule" or form in ("same-line-bare", "file-bare")
        if form in ("same-line", "same-line-bare"):
            scope = v == p
        elif form == "next-line":
            scope = v == p + 1
        elif form == "block":
            scope = And(v > p, v < e)
        elif form in ("file", "file-bare"):
            scope = p <= 10
        else:
            scope = False
        want = And(named, scope) if form != "none" else False
        ctx.note("form", form)
        ctx.note("style", style)
        ctx.note("names", names)
        ctx.note("second_directive", second)
        ctx.cover("ignored" if got else "kept")
        if form == "block":
            # the directive lines themselves (v == start or v == end) are not second-guessed
            ctx.assume(And(v != p, v != e))
        ctx.require("ignored-iff-named-and-in-scope", Eq(got, want), form=form, style=style, tool=tool, names=names,
                    pos=p, end=e, got=got)
    return h


# ------------------------------------------------------------------ K3 every linter, real rules
_P = {}


def _proj():
    if _P.get("pid") != os.getpid():
        _P["pid"] = os.getpid()
        d = tempfile.mkdtemp(prefix="c04proj-")
        atexit.register(shutil.rmtree, d, True)
        (Path(d) / ".git").mkdir()
        (Path(d) / ".thailint.yaml").write_text(triggers.BASE_CONFIG)
        (Path(d) / "src").mkdir()
        _P["d"] = Path(d)
    return _P["d"]


def _lint_text(name, text, companions=None):
    """Violations of the file `name`; companions (name -> text) are linted in the same run (cross-file rules)."""
    from src.orchestrator.core import Orchestrator
    import src.linter_config.ignore as ign
    ign.clear_ignore_parser_cache()
    d = _proj()
    f = d / "src" / name
    f.write_text(text)
    others = []
    for n, t in (companions or {}).items():
        (d / "src" / n).write_text(t)
        others.append(d / "src" / n)
    try:
        return [v for v in Orchestrator(project_root=d).lint_files([f] + others) if v.file_path == str(f)]
    finally:
        f.unlink()
        for o in others:
            o.unlink()


# cross-file findings: (language, rule prefix, line, text, companions, the OTHER rule named by the *-other forms)
_TWO_RULES = ("def route(status, env):\n    if status in (\"active\", \"pending\", \"closed\") and env == \"production\":\n        return 1\n"
              "    if env == \"staging\":\n        return 2\n    return 0\n")
_TWO_RULES_B = ("def route_b(status, env, extra):\n    audit(extra)\n    if status in (\"active\", \"pending\", \"closed\") and env == \"production\":\n        return compute(extra)\n"
                "    if env == \"staging\":\n        return fallback(extra)\n    return None\n")
CROSS = {
    # one line carrying findings of two different stringly-typed rules
    "stringly-two-rules.py": ("python", "stringly-typed.repeated-validation", 2, _TWO_RULES,
                              {"stringly-two-rules-b.py": _TWO_RULES_B}, "stringly-typed.scattered-comparison"),
    "stringly-two-rules-scattered.py": ("python", "stringly-typed.scattered-comparison", 2, _TWO_RULES,
                                        {"stringly-two-rules-b.py": _TWO_RULES_B}, "stringly-typed.repeated-validation"),
    "dup1.py": ("python", "dry.duplicate-code", 2, triggers.DUP_FILES["dup1.py"], {"dup2.py": triggers.DUP_FILES["dup2.py"]}, "srp"),
}


SKIP = {"lazy.py"}   # lazy-ignores is about the suppression comments themselves (excluded by the property)


def h_every_linter(ctx):
    names = tuple(n for n in triggers.T if n not in SKIP) + tuple(CROSS)
    tname = ctx.pick("trigger", names)
    companions, other_rule = None, None
    if tname in CROSS:
        lang, rule_prefix, vline, text, companions, other_rule = CROSS[tname]
    else:
        lang, rule_prefix, vline, text = triggers.T[tname]
    style = "#" if lang == "python" else "//"
    form = ctx.pick("form", ("same-line", "next-line", "block", "file", "same-line-other", "next-line-other", "file-other", "block-far",
                             "same-line-space-other", "file-space-other", "next-line-trailing-other"))
    spelling = ctx.pick("spelling", ("prefix", "full", "wildcard-upper"))
    ctx.note("linter", rule_prefix.split(".")[0])
    ctx.note("form", form)
    ctx.note("lang", lang)
    base = _lint_text(tname, text, companions)
    mine = [v for v in base if v.rule_id.startswith(rule_prefix) and v.line == vline]
    ctx.require("catalogue-entry-triggers", len(mine) >= 1, trigger=tname)
    if not mine:
        return
    rid = mine[0].rule_id
    sp = spellings(rid)
    name = {"prefix": sp["prefix"], "full": sp["full"],
            "wildcard-upper": (sp["wildcard"] if "." in rid else sp["prefix"]).upper()}[spelling]
    other = other_rule or ("srp" if not rid.startswith("srp") else "nesting")
    lines = text.split("\n")
    shift_at, shift = None, 0
    if form.endswith("-other"):
        name = other
    f = form.replace("-other", "")
    if f == "same-line":
        lines[vline - 1] += "  " + _directive("same-line", style, "thailint", name)
    elif f == "same-line-space":
        lines[vline - 1] += "  " + _directive("same-line-space", style, "thailint", name)
    elif f == "next-line-trailing":
        # a next-line directive written at the end of the violation's own line: its scope is the line below
        lines[vline - 1] += "  " + _directive("next-line", style, "thailint", name)
    elif f == "file-space":
        lines.insert(0, _directive("file-space", style, "thailint", name))
        shift_at, shift = 1, 1
    elif f == "next-line":
        lines.insert(vline - 1, _directive("next-line", style, "thailint", name))
        shift_at, shift = vline, 1
    elif f == "block":
        lines.insert(vline - 1, _directive("block-start", style, "thailint", name))
        lines.insert(vline + 1, _directive("block-end", style, "thailint", name))
        shift_at, shift = vline, 1
    elif f == "block-far":
        # a complete block that ends before the violation: out of scope
        lines.insert(0, _directive("block-start", style, "thailint", name))
        lines.insert(1, _directive("block-end", style, "thailint", name))
        shift_at, shift = 1, 2
    elif f == "file":
        lines.insert(0, _directive("file", style, "thailint", name))
        shift_at, shift = 1, 1
    # a page break (form feed) inside a comment above everything: compilers do not count it as a line break, nor may a lookup
    page_break = ctx.flag("form_feed_in_a_comment_on_line_1") if form in ("same-line", "next-line", "block") else False
    if page_break:
        if "thailint" in lines[0] or not lines[0].strip() or lines[0].lstrip().startswith(("#!", '"""', "/*")):
            ctx.assume(False)
        lines[0] += "  " + style + " page\x0cbreak"
        text0 = text.split("\n")
        text0[0] += "  " + style + " page\x0cbreak"
        base = _lint_text(tname, "\n".join(text0), companions)
    after = _lint_text(tname, "\n".join(lines), companions)
    directive_texts = [_directive(k, style, "thailint", name) for k in ("same-line", "next-line", "block-start", "block-end", "file", "same-line-space", "file-space")]

    def key(v, shifted):
        ln = v.line
        if shifted and shift_at is not None:
            if f == "block" and ln > vline + 1:
                ln -= 2
            elif ln >= shift_at + (shift if f != "block" else 1):
                ln -= shift if f != "block" else 1
        msg = v.message
        for piece in (directive_texts or ()):
            msg = msg.replace("  " + piece, "").replace(piece, "")
        msg = re.sub(r"(?i)\bL\d+|\blines? \d+(-\d+)?", "L#", msg)   # line numbers quoted inside messages shift too
        return (v.rule_id, ln, msg)
    kb = Counter(key(v, False) for v in base if not v.rule_id.startswith("file-header") and not v.rule_id.startswith("lazy-ignores"))
    ka = Counter(key(v, True) for v in after if not v.rule_id.startswith("file-header") and not v.rule_id.startswith("lazy-ignores"))
    # a prefix / wildcard spelling names every rule of the linter, the full id only that rule
    named = (lambda r: r == rid) if spelling == "full" else (lambda r: r.split(".")[0] == rid.split(".")[0])
    targeted = Counter({k: c for k, c in kb.items() if named(k[0]) and (f in ("file",) or k[1] == vline)})
    if tname == "dup1.py" and f == "block":
        ctx.assume(False)      # the block-end line would sit inside the duplicated block and change the block itself
    if form in ("same-line", "next-line", "block", "file"):
        want = kb - targeted
        ctx.cover("suppressed")
    elif f == "block-far" or form == "next-line-trailing-other":
        want = kb
        ctx.cover("unchanged")
    else:
        # a directive naming ANOTHER rule removes that rule's findings in its scope (if it has any there) and nothing else
        in_scope_of_other = Counter({k: c for k, c in kb.items() if (k[0] == other or k[0].split(".")[0] == other)
                                     and (f.startswith("file") or k[1] == vline)})
        want = kb - in_scope_of_other
        ctx.cover("unchanged")
    ctx.require("directive-removes-exactly-the-named-violations-in-scope", ka == want, trigger=tname, form=form,
                name=name, still_there=[list(k) for k in (ka - want)][:3], wrongly_removed=[list(k) for k in (want - ka)][:3])


def h_file_header_directives(ctx):
    """file-header findings (left out of K3's comparison) under a file-level directive in the first line of a Python
    module: naming file-header (or no rule) removes them, naming another rule leaves them exactly as they were."""
    case = ctx.pick("module", ("no-docstring", "docstring-missing-fields"))
    text = {"no-docstring": "import os\n\n\ndef f(a):\n    return os.getcwd() + a\n",
            "docstring-missing-fields": '"""\nPurpose: demo module\n"""\nimport os\n\n\ndef f(a):\n    return os.getcwd() + a\n'}[case]
    form = ctx.pick("form", ("file", "file-space", "file-bare", "file-bare-with-reason"))
    names = ctx.pick("names", ("file-header", "file-header.validation", "magic-numbers", "nesting srp", "FILE-HEADER"))
    tool = ctx.pick("tool", ("thailint", "design-lint"))
    if form.startswith("file-bare"):
        ctx.assume(names == "file-header")
        line = _directive("file-bare", "#", tool, "") + (" - generated module" if form.endswith("reason") else "")
    else:
        line = _directive(form, "#", tool, names.replace(" ", ", ") if form == "file" else names)
    base = [v for v in _lint_text("fh_mod.py", text) if v.rule_id.startswith("file-header")]
    ctx.require("module-triggers-file-header", len(base) >= 1, module=case)
    after = [v for v in _lint_text("fh_mod.py", line + "\n" + text) if v.rule_id.startswith("file-header")]
    covers = form.startswith("file-bare") or names.lower().startswith("file-header")
    ctx.cover("suppressed" if covers else "unchanged")
    want = Counter() if covers else Counter((v.rule_id, v.message) for v in base)
    got = Counter((v.rule_id, v.message) for v in after)
    ctx.require("file-header-findings-removed-iff-the-directive-covers-file-header", got == want, directive=line,
                before=len(base), after=len(after))


# ------------------------------------------------------------------ K4: linter-level ignore patterns
IGNORE_SECTIONS = (   # documented section name per trigger (docs/configuration.md: "All linters support the ignore field")
    ("magic-numbers", "magic-numbers.", "magic.py"), ("magic-numbers", "magic-numbers.", "magic.ts"), ("magic-numbers", "magic-numbers.", "magic.rs"),
    ("nesting", "nesting.", "nest.py"), ("nesting", "nesting.", "nest.ts"), ("srp", "srp.", "srp.py"), ("srp", "srp.", "srp.rs"),
    ("dry", "dry.", "dup1.py"), ("print-statements", "improper-logging.", "printy.py"), ("improper-logging", "improper-logging.", "printy.js"),
    ("method-property", "method-property.", "methprop.py"), ("stateless-class", "stateless-class.", "stateless.py"),
    ("collection-pipeline", "collection-pipeline.", "pipeline.py"), ("lbyl", "lbyl", "lbyl.py"), ("cqs", "cqs", "cqs.py"),
    ("performance", "performance.", "concat.py"), ("unwrap-abuse", "unwrap-abuse", "unwrap.rs"), ("clone-abuse", "clone-abuse", "cloney.rs"),
    ("blocking-async", "blocking-async", "blocking.rs"), ("stringly-typed", "stringly-typed.", "strg1.py"), ("file-header", "file-header.", "magic.py"),
)


def h_linter_ignore(ctx):
    import src.linter_config.ignore as ign
    from src.core.config_parser import _normalize_config_keys
    from src.orchestrator.core import Orchestrator
    section, prefix, tname = ctx.pick("linter_and_trigger", IGNORE_SECTIONS)
    form = ctx.pick("pattern_form", ("**/name", "dir/**", "**/dir/**", "**/dir/sub/**", "exact-relative", "substring", "non-matching"))
    # where the file lives inside the project (the directory named by the pattern at the root, deeper, or with a level below it)
    loc = ctx.pick("file_location", ("src", "pkg/src", "src/inner")) if form in ("**/name", "**/dir/**", "substring", "non-matching") else \
        ctx.pick("file_location", ("src", "src/inner")) if form == "dir/**" else \
        ctx.pick("file_location", ("src/inner", "pkg/src/inner")) if form == "**/dir/sub/**" else "src"
    spelled = section if ctx.pick("spelling", ("hyphen", "underscore")) == "hyphen" else section.replace("-", "_")
    d = _proj()
    texts = {}
    if tname == "dup1.py":
        texts = dict(triggers.DUP_FILES)
    elif tname == "strg1.py":
        texts = dict(triggers.STRINGLY_FILES)
    else:
        texts = {tname: triggers.T[tname][3]}
    stem = tname.rsplit(".", 1)[0]
    pattern = {"**/name": "**/" + tname, "dir/**": "src/**", "**/dir/**": "**/src/**", "**/dir/sub/**": "**/src/inner/**",
               "exact-relative": "src/" + tname, "substring": stem,
               "non-matching": "**/no_such_file_anywhere.xyz"}[form]
    paths = []
    (d / loc).mkdir(parents=True, exist_ok=True)
    for n, c in texts.items():
        (d / loc / n).write_text(c)
        paths.append(d / loc / n)
    base_cfg = {"dry": {"enabled": True}}
    cfg = {"dry": {"enabled": True}}
    cfg.setdefault(spelled, {})
    if section == "dry":
        cfg.pop("dry", None)
        cfg[spelled] = {"enabled": True}
    key = "ignore"
    cfg[spelled][key] = [pattern]
    try:
        ign.clear_ignore_parser_cache()
        base = Orchestrator(project_root=d, config=_normalize_config_keys(base_cfg)).lint_files(paths)
        ign.clear_ignore_parser_cache()
        got = Orchestrator(project_root=d, config=_normalize_config_keys(cfg)).lint_files(paths)
    finally:
        for p in paths:
            p.unlink()
    target = str(d / loc / tname)

    def k(v):
        return (v.rule_id, v.file_path, v.line, v.message)
    own_base = [v for v in base if v.rule_id.startswith(prefix) and v.file_path == target]
    own_got = [v for v in got if v.rule_id.startswith(prefix) and v.file_path == target]
    others_base = Counter(k(v) for v in base if not v.rule_id.startswith(prefix))
    others_got = Counter(k(v) for v in got if not v.rule_id.startswith(prefix))
    ctx.note("linter", section)
    ctx.note("pattern_form", form)
    ctx.require("trigger-fires-without-the-pattern", len(own_base) >= 1, linter=section, trigger=tname)
    if form == "non-matching":
        ctx.cover("unchanged")
        ctx.require("non-matching-ignore-pattern-changes-nothing", Counter(map(k, own_got)) == Counter(map(k, own_base)), linter=section)
    else:
        ctx.cover("ignored")
        ctx.require("matching-ignore-pattern-silences-the-linter-for-that-file", not own_got, linter=section, pattern=pattern,
                    still=[(v.rule_id, v.line) for v in own_got][:3])
    ctx.require("other-linters-unaffected", others_got == others_base, linter=section, pattern=pattern)


ASSUMPTIONS = (
    "documented scope: same-line <=> the violation's line; ignore-next-line <=> the following line; ignore-start/ignore-end <=> strictly between; ignore-file <=> directive within the first ten lines",
    "file-header and lazy-ignores findings are left out of the before/after comparison (inserting a comment line is their subject)",
)


def obligations(tier):
    n = 8 if tier == "quick" else 13
    extra = []
    if tier == "thorough":
        extra = [
            Ob(name="E1-rule-matches-registered-id-vs-free-pattern", engine="xh", module="props.xhk", fn="c04_registered_rule_vs_free_pattern",
               functions=["rule_matcher.rule_matches/_matches_pattern_directly/_matches_via_alias"], deciding=False, timeout=240,
               bounds="CrossHair: pattern a symbolic str, len <= 3 over the alphabet cCqQsS.*, rule id one of 5 registered ids (hunting: a timeout claims nothing)"),
            Ob(name="E1-direct-match-vs-reference", engine="xh", module="props.xhk", fn="c04_direct_match_agrees_with_reference",
               functions=["rule_matcher._matches_pattern_directly"], deciding=False, timeout=240,
               bounds="CrossHair: rule id and pattern symbolic strs, len <= 3 over aB.* (hunting)"),
        ]
    return extra + [
        Ob(name="K1-rule-name-spellings", engine="pathex", harness=h_rule_names,
           functions=["rule_matcher.rule_matches/_matches_pattern_directly/_matches_via_alias/_pattern_matches_deprecated_id",
                      "check_bracket_rules", "check_space_separated_rules", "rules_match_violation"],
           bounds="forked: every rule id of the universe (%d) x spelling kind (full, prefix, prefix.*, deprecated alias x3, another rule x3, prefix+1 char, prefix-1 char) x 4 letter-case masks x 5 entry points" % len(catalogue.rule_id_universe()),
           timeout=300, workers=14, must_cover=("match", "no-match")),
        Ob(name="K2-directive-scope", engine="pathex", harness=make_h_scope(n),
           functions=["IgnoreDirectiveParser.should_ignore_violation", "_is_ignored_in_content", "_check_block_ignore/_process_block_line/_handle_block_end",
                      "_check_prev_line_ignore/_get_prev_line", "_check_current_line_ignore", "_has_file_ignore_in_content", "directive_markers.*"],
           bounds="violation line symbolic in [1,%d]; forked: directive form (8, block start as `ignore-start name` and `ignore-start[name]`), the directive in capitals, a reason after it that mentions the violation's own rule, position(s) 1..%d, comment style (#, //), tool word (2), naming (own prefix / own full id upper-case / another rule), an optional second directive naming another rule (previous line, same line, enclosing block, file level); file-level forms use at least 12 lines" % (n, n),
           timeout=400 if n <= 8 else 1500, workers=14, must_cover=("ignored", "kept"), max_paths=400000 if n <= 8 else 1500000),
        Ob(name="K3-every-linter-honours-directives", engine="pathex", harness=h_every_linter,
           functions=["Orchestrator.lint_files", "every rule's check() and its use of the ignore parser"],
           bounds="forked: %d catalogue triggers (rule x language) x 8 directive forms/placements x 3 spellings; nothing symbolic (parser in the loop)" % (len(triggers.T) - 1),
           timeout=900, workers=14, must_cover=("suppressed", "unchanged")),
        Ob(name="K3h-file-header-under-file-level-directives", engine="pathex", harness=h_file_header_directives,
           functions=["FileHeaderRule.check/_has_file_ignore/_has_standard_ignore/_line_has_matching_ignore", "ignore._check_specific_rule_ignore",
                      "rule_matcher.check_bracket_rules/check_space_separated_rules/named_rules"],
           bounds="forked: 2 Python modules x 4 file-level forms (bracket, space, bare, bare + reason) x 5 rule lists (own prefix, own id, another rule, two other rules, own in capitals) x 2 tool words",
           timeout=300, workers=8, must_cover=("suppressed", "unchanged")),
        Ob(name="K4-linter-level-ignore-patterns", engine="pathex", harness=h_linter_ignore,
           functions=["every rule's ignore-pattern handling (_is_file_ignored / is_ignored_path / _matches_pattern / DRY ignore_patterns ...)", "Orchestrator.lint_files"],
           bounds="forked: %d (linter section, trigger) pairs x 4 documented pattern forms (**/name, dir/**, exact relative path, substring) + a non-matching pattern x key spelling" % len(IGNORE_SECTIONS),
           timeout=900, workers=14, must_cover=("ignored", "unchanged")),
    ]
