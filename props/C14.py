"""C14 — a run lints exactly the non-excluded, non-ignored files under the given paths."""
from __future__ import annotations

import fnmatch
import shutil
import tempfile
from pathlib import Path

from vsym.pathex import And, Eq, Implies, Not, Or
from vsym.runner import Ob

from vsym import triggers

# every generated source file carries an over-deep function: the nesting linter has no path-based exemptions
BODY = triggers.T["nest.py"][3]
BODY_TS = triggers.T["nest.ts"][3]


def vocab():
    """Directory / file-name vocabulary derived from the implementation's own tables."""
    import src.orchestrator.core as core
    dirs = sorted(d for d in core._HARDCODED_EXCLUDE_DIRS if "*" not in d)
    exts = sorted(core._HARDCODED_EXCLUDE_EXTENSIONS)
    return dirs, exts


def always_excluded_dir(name, dirs):
    return name in dirs or name.endswith(".egg-info")


def ref_ignored(rel, pattern):
    """Reference matcher for the documented pattern forms (gitignore style)."""
    parts = rel.split("/")
    if pattern.endswith("/**"):
        return rel.startswith(pattern[:-2])
    if pattern.startswith("**/") and pattern.endswith("/"):
        return pattern[3:-1] in parts[:-1]        # **/name/ = a directory of that name at any depth, the top level included
    if pattern.endswith("/"):
        segs, dirs = pattern[:-1].split("/"), parts[:-1]
        if len(segs) == 1:          # one name (possibly with a wildcard): a directory of that name at any depth
            return any(fnmatch.fnmatch(x, segs[0]) for x in dirs)
        # several segments: the directory path from the project root
        return len(dirs) >= len(segs) and all(fnmatch.fnmatch(x, y) for x, y in zip(dirs, segs))
    if pattern.startswith("**/"):
        return fnmatch.fnmatch(parts[-1], pattern[3:]) or fnmatch.fnmatch(rel, pattern[3:]) or fnmatch.fnmatch(rel, pattern)
    return fnmatch.fnmatch(rel, pattern)


def make_h(tier):
    quick = tier == "quick"

    def h(ctx):
        any_rule = set()
        import src.linter_config.ignore as ign
        from src.orchestrator.core import Orchestrator
        dirs, exts = vocab()
        dir_names = ["pkg", ".hidden"]
        pick_dirs = dirs if not quick else [d for d in dirs if d in ("build", "node_modules", ".venv")]
        for d in pick_dirs:
            dir_names += [d, d + "x", "x" + d, d.upper()]
        dir_names.append("mylib.egg-info")
        dir_names += ["query_cache", "pytest_cache"]       # ordinary directories whose names merely end like a tool cache
        dir_names.append("keep.py")        # a directory whose name is also the name of a regular file elsewhere (pkg/keep.py)
        file_names = ["a.py", "b.ts"] + ["m" + e + ".py" for e in (exts if not quick else exts[:3])] + \
                     ["builder.py", "build.py", "c" + exts[0], "build", "dist"]      # "build"/"dist": regular files (python scripts) named like an excluded directory
        d1 = ctx.pick("dir1", dir_names)
        d2 = ctx.pick("dir2", ("sub", "build", "node_modules"))
        fname = ctx.pick("file", file_names)
        if fname in (d2, d1):
            ctx.assume(False)       # the same name cannot be a file and a directory in one place
        recursive = ctx.flag("recursive")
        ig = ctx.pick("ignore_pattern", ("none", "dir1/", "build/", "*.ts", "dir1/file", "dir1/**", "**/file", "**/dir1/", "**/dir2/", "wild-dir1/", "dir1/dir2/"))
        if ig not in ("none", "build/", "dir1/") and d1 not in ("pkg", "build", "buildx", "xbuild", "BUILD", "node_modules", ".hidden", "keep.py"):
            ctx.assume(False)
        kinds = (".thailintignore", "config-ignore")
        if quick or ig in ("dir1/", "*.ts", "**/file", "dir1/**"):
            kinds += (".thailintignore-with-byte-order-mark",)
        if not quick or ig in ("dir1/", "*.ts", "**/file"):
            kinds += (".thailintignore-next-to-a-config-list", "config-ignore-next-to-an-ignore-file")
        src_kind = ctx.pick("ignore_source", kinds) if ig != "none" else "none"
        explicit = ctx.flag("also_named_explicitly")
        # the command line has its own target handling (files vs directories, --no-recursive): always exercised where explicit
        # files meet a non-recursive directory target, everywhere in the thorough tier
        api_too = (fname in ("a.py", "b.ts") and d1 in ("pkg", "build", ".hidden")) if quick else fname in ("a.py", "b.ts", "builder.py", "build")
        entries = ("library", "cli") if (ig == "none" and (not quick or (explicit and not recursive))) else ("library",)
        entries += ("linter-api",) if api_too else ()
        entry = ctx.pick("entry", entries) if len(entries) > 1 else "library"
        root = Path(tempfile.mkdtemp(prefix="c14-"))
        try:
            (root / ".git").mkdir()
            files = ["top_" + fname, f"{d1}/{fname}", f"{d1}/{d2}/{fname}", "pkg/keep.py"]
            for rel in files:
                p = root / rel
                p.parent.mkdir(parents=True, exist_ok=True)
                p.write_text(("#!/usr/bin/env python3\n" if "." not in Path(rel).name else "") + BODY if not rel.endswith(".ts") else BODY_TS)
            pattern = {"none": None, "dir1/": d1 + "/", "build/": "build/", "*.ts": "*.ts", "dir1/file": f"{d1}/{fname}",
                       "dir1/**": d1 + "/**", "**/file": "**/" + fname, "**/dir1/": "**/" + d1 + "/", "**/dir2/": "**/" + d2 + "/",
                       "wild-dir1/": d1[:-1] + "*/", "dir1/dir2/": d1 + "/" + d2 + "/"}[ig]
            if pattern is not None:
                # a project may carry both sources: each keeps its effect (the other one holds an unrelated pattern)
                if src_kind == ".thailintignore-with-byte-order-mark":
                    (root / ".thailintignore").write_bytes(b"\xef\xbb\xbf" + (pattern + "\n# comment\n").encode())     # the pattern is the first line
                elif src_kind.startswith(".thailintignore"):
                    (root / ".thailintignore").write_text("# comment\n" + pattern + "\n")
                    if src_kind != ".thailintignore":
                        (root / ".thailint.yaml").write_text("ignore:\n  - \"zzz_unrelated/\"\n")
                else:
                    (root / ".thailint.yaml").write_text("ignore:\n  - \"%s\"\n" % pattern)
                    if src_kind != "config-ignore":
                        (root / ".thailintignore").write_text("zzz_unrelated/\n")
            ign.clear_ignore_parser_cache()
            if entry == "library":
                o = Orchestrator(project_root=root)
                vs = o.lint_directory(root, recursive=recursive)
                if explicit:
                    vs += Orchestrator(project_root=root).lint_files([root / f for f in files])
                got = {str(Path(v.file_path).relative_to(root)) for v in vs if v.rule_id.startswith("nesting.")}
            elif entry == "linter-api":
                # the documented library entry point; here EVERY rule's findings count (rules differ in how they consult the ignore list)
                from src.api import Linter
                vs = Linter(project_root=str(root)).lint(root) if recursive else Orchestrator(project_root=root).lint_directory(root, recursive=False)
                if explicit:
                    for f in files:
                        vs += Linter(project_root=str(root)).lint(root / f)
                got = {str(Path(v.file_path).relative_to(root)) for v in vs if v.rule_id.startswith("nesting.")}
                any_rule = {str(Path(v.file_path).relative_to(root)) for v in vs}
            else:
                import json
                from click.testing import CliRunner
                from src.cli_main import cli
                args = ["nesting", "--format", "json"] + ([] if recursive else ["--no-recursive"]) + [str(root)]
                if explicit:
                    args += [str(root / f) for f in files]
                r = CliRunner().invoke(cli, args)
                doc = json.loads(r.output)
                got = {str(Path(v["file_path"]).relative_to(root)) for v in doc["violations"]}
        finally:
            shutil.rmtree(root, True)
            ign.clear_ignore_parser_cache()
        want = set()
        for rel in files:
            parts = rel.split("/")
            if any(always_excluded_dir(p, dirs) for p in parts[:-1]):
                continue
            if Path(rel).suffix in exts:
                continue
            if pattern is not None and ref_ignored(rel, pattern):
                continue
            if not recursive and len(parts) > 1 and not explicit:
                continue
            if Path(rel).suffix not in (".py", ".ts") and "." in Path(rel).name:
                continue
            want.add(rel)
        ctx.note("ignore_pattern", ig)
        ctx.note("pattern_text", pattern)
        ctx.cover("some-linted" if got else "none-linted")
        ctx.require("excluded-or-ignored-file-never-reported", not (got - want), wrongly_linted=sorted(got - want), pattern=pattern,
                    files=files)
        if entry == "linter-api":
            ctx.require("excluded-or-ignored-file-never-reported-by-any-rule", not (any_rule - want), wrongly_linted=sorted(any_rule - want),
                        pattern=pattern, files=files)
        ctx.require("every-other-file-is-linted", not (want - got), missing=sorted(want - got), pattern=pattern, files=files,
                    recursive=recursive)
    return h


ASSUMPTIONS = (
    "every generated source file carries one over-deep function, so the set of files with a nesting finding is the set of files linted (the nesting linter has no path-based exemptions of its own)",
    "ignore patterns are the documented forms dir/, *.ext, path/file, dir/**, **/name with gitignore meaning (dir/ = a directory of that name at any depth)",
    "symlinks and unreadable directories are outside the claim",
)


def obligations(tier):
    return [
        Ob(name="K2-directory-walk-and-ignore-patterns", engine="pathex", harness=make_h(tier),
           functions=["Orchestrator.lint_directory/lint_files/lint_file", "_collect_files_fast/_collect_files_from_walk/_should_include_dir/_is_hardcoded_excluded",
                      "IgnoreDirectiveParser.is_ignored", "_load_repo_ignores", "pattern_utils.matches_pattern/_matches_directory_pattern/extract_patterns_from_content"],
           bounds="forked (real directory trees on disk, nothing symbolic): first-level directory name from the vocabulary derived from _HARDCODED_EXCLUDE_DIRS "
                  "(each name, name+x, x+name, upper case, *.egg-info, hidden, neutral), second-level name, file name (incl. stems containing every excluded extension), "
                  "recursive flag, 7 ignore-pattern forms x 2 sources, explicit naming, library/CLI entry",
           timeout=900 if tier == "quick" else 3000, workers=14, must_cover=("some-linted", "none-linted"), max_paths=400000 if tier == "quick" else 1500000),
    ]
