"""C20 — config tooling never loses user settings and only writes validated values."""
from __future__ import annotations

import json
import os
import shutil
import tempfile
from pathlib import Path

from vsym import catalogue, triggers
from vsym.pathex import And, Eq, Implies, Not, Or
from vsym.runner import Ob

# user-written sections: (section, yaml body, (key, value) that must stay in effect)
USER_SECTIONS = {
    "magic-numbers": ("  allowed_numbers: [7, 77]\n  max_small_integer: 6\n", ("max_small_integer", 6)),
    "nesting": ("  max_nesting_depth: 9\n", ("max_nesting_depth", 9)),
    "srp": ("  max_methods: 13\n  # my own comment\n  max_loc: 301\n", ("max_methods", 13)),
    "dry": ("  enabled: true\n  min_duplicate_lines: 8\n", ("min_duplicate_lines", 8)),
    "stateless-class": ("  min_methods: 5\n", ("min_methods", 5)),
    "file-header": ("  enforce_atemporal: false\n", ("enforce_atemporal", False)),
}


def _invoke(args, cwd):
    from click.testing import CliRunner
    from src.cli_main import cli
    old = os.getcwd()
    os.chdir(cwd)
    try:
        return CliRunner().invoke(cli, args)
    finally:
        os.chdir(old)


_TPL = {}


def _template_sections(preset):
    if preset not in _TPL:
        import yaml
        d = Path(tempfile.mkdtemp(prefix="c20tpl-"))
        try:
            _invoke(["init-config", "--non-interactive", "--preset", preset], d)
            doc = yaml.safe_load((d / ".thailint.yaml").read_text()) or {}
        finally:
            shutil.rmtree(d, True)
        _TPL[preset] = [k for k, v in doc.items() if isinstance(v, dict)]
    return _TPL[preset]


def h_init_merge(ctx):
    import yaml
    from src.core.config_parser import parse_config_file
    present = [s for s in USER_SECTIONS if ctx.flag("has_" + s.replace("-", "_"))]
    spell = {s: ctx.pick("spelling_" + s.replace("-", "_"), ("hyphen", "underscore")) if "-" in s else "hyphen" for s in present}
    preset = ctx.pick("preset", ("strict", "standard", "lenient"))
    extra = ctx.pick("extra_user_content", ("none", "leading-comment", "extra-top-level-key", "global-settings-marker",
                                           "document-start-marker", "document-end-marker", "flow-style-section", "root-flow-mapping",
                                           "trailing-keep-scalar", "crlf-line-endings", "no-final-newline", "tab-free-deep-indent"))
    d = Path(tempfile.mkdtemp(prefix="c20-"))
    try:
        text = ""
        if extra == "leading-comment":
            text += "# my project configuration\n# keep this comment\n\n"
        for s in present:
            name = s if spell[s] == "hyphen" else s.replace("-", "_")
            text += name + ":\n" + USER_SECTIONS[s][0] + "\n"
        if extra == "extra-top-level-key":
            text += "my_custom_key:\n  answer: 42\n"
        if extra == "global-settings-marker":
            text += "# ============================================================================\n# GLOBAL SETTINGS\n# ============================================================================\noutput_format: text\n"
        if extra == "document-start-marker":
            text = "---\n" + text
        if extra == "document-end-marker":
            text += "my_custom_key: 1\n...\n"
        if extra == "flow-style-section":
            text += "performance: {enabled: false}\nlbyl: {enabled: true, detect_dict_key: false}\n"
        if extra == "root-flow-mapping":
            text = "{" + ", ".join("%s: {%s: %s}" % (s if spell[s] == "hyphen" else s.replace("-", "_"), USER_SECTIONS[s][1][0],
                                                     str(USER_SECTIONS[s][1][1]).lower() if isinstance(USER_SECTIONS[s][1][1], bool) else USER_SECTIONS[s][1][1])
                                   for s in present) + "}\n"
        if extra == "trailing-keep-scalar":
            text += "my_banner: |+\n  two blank lines follow\n\n\n"
        if extra == "no-final-newline":
            text = (text + "my_custom_key: 1").rstrip("\n")
        if extra == "tab-free-deep-indent":
            text += "my_tree:\n        deep:\n                deeper: 1\n"
        if extra == "crlf-line-endings":
            text = text.replace("\n", "\r\n")
        if not text:
            text = "# empty but existing configuration\n"
        f = d / ".thailint.yaml"
        f.write_bytes(text.encode())
        before_doc = yaml.safe_load(text) or {}
        r1 = _invoke(["init-config", "--non-interactive", "--preset", preset], d)
        after1 = f.read_bytes().decode()
        r2 = _invoke(["init-config", "--non-interactive", "--preset", preset], d)
        after2 = f.read_bytes().decode()
        # layouts a textual merge cannot extend: refusing (non-zero exit, file untouched) is as good as merging
        refusable = extra in ("document-end-marker", "root-flow-mapping", "trailing-keep-scalar")
        refused1 = r1.exit_code != 0 and after1.encode() == text.encode() if refusable else False
        ctx.note("refused", refused1)
        ctx.require("init-config-succeeds", (r1.exit_code == 0 or refused1) and (r2.exit_code == 0 or (refused1 and after2 == after1)),
                    codes=[r1.exit_code, r2.exit_code], out=(r1.output + r2.output)[-300:])
        try:
            doc = yaml.safe_load(after1) or {}
            ok_yaml = isinstance(doc, dict)
        except yaml.YAMLError as e:
            doc, ok_yaml = {}, False
        ctx.require("result-is-valid-yaml", ok_yaml)
        if not ok_yaml:
            return
        ctx.require("second-run-changes-nothing", after1 == after2)
        # every top-level key the user had keeps exactly its parsed value (extra keys and exotic scalars included)
        changed = sorted(str(k) for k in before_doc if doc.get(k) != before_doc[k]) if isinstance(before_doc, dict) else []
        ctx.require("every-pre-existing-value-unchanged", not changed, changed=changed, extra=extra)
        # never a deletion: every line the user wrote is still there, in order
        it = iter(after1.replace("\r\n", "\n").split("\n"))
        kept = all(any(l == m for m in it) for l in text.replace("\r\n", "\n").rstrip("\n").split("\n"))
        ctx.require("existing-content-preserved", kept)
        effective = parse_config_file(f)       # what the linters get (keys normalised)
        for s in present:
            key, val = USER_SECTIONS[s][1]
            norm = s.replace("-", "_")
            sec = effective.get(norm)
            ctx.note("section", s)
            ctx.note("spelling", spell[s])
            ctx.require("pre-existing-setting-stays-in-effect", isinstance(sec, dict) and sec.get(key) == val,
                        section=s, spelling=spell[s], key=key, want=val, got=(sec or {}).get(key) if isinstance(sec, dict) else sec)
            names = [k for k in doc if k.replace("-", "_") == norm]
            ctx.require("section-not-duplicated", len(names) == 1, section=s, names=names)
        if not refused1:
            have = {str(k).replace("-", "_") for k in doc}
            # every linter section of the file init-config generates from scratch (its dict-valued top-level keys)
            absent = [x for x in _template_sections(preset) if x.replace("-", "_") not in have
                      and not (x == "print-statements" and "improper_logging" in have) and not (x == "pipeline" and "collection_pipeline" in have)]
            ctx.require("missing-sections-added", not absent, absent=absent)
        ctx.cover("refused" if refused1 else "merged" if present else "empty-existing")
    finally:
        shutil.rmtree(d, True)


# (user-written config text under the DOCUMENTED name, command, trigger file name, trigger text or catalogue name)
BEHAVIOURS = {
    "collection-pipeline-min-continues": ("collection-pipeline:\n  min_continues: 3\n", "pipeline", "pipeline.py"),
    "collection_pipeline-disabled": ("collection_pipeline:\n  enabled: false\n", "pipeline", "pipeline.py"),
    "improper-logging-disabled": ("improper-logging:\n  enabled: false\n", "print-statements", "printy.py"),
    "print-statements-disabled": ("print-statements:\n  enabled: false\n", "print-statements", "printy.py"),
    "magic-numbers-allowed": ("magic-numbers:\n  allowed_numbers: [3975]\n", "magic-numbers", "magic.py"),
    "nesting-limit": ("nesting:\n  max_nesting_depth: 9\n", "nesting", "nest.py"),
    "srp-disabled": ("srp:\n  enabled: false\n", "srp", "srp.py"),
    "method_property-disabled": ("method_property:\n  enabled: false\n", "method-property", "methprop.py"),
    "stateless-class-disabled": ("stateless-class:\n  enabled: false\n", "stateless-class", "stateless.py"),
    "unwrapped-placement-rule": ("global_deny:\n  - pattern: '.*\\.tmp$'\n    reason: no temp files\n", "file-placement", "junk.tmp"),
    "wrapped-placement-rule": ("file-placement:\n  global_deny:\n    - pattern: '.*\\.tmp$'\n      reason: no temp files\n", "file-placement", "junk.tmp"),
}


def h_init_behaviour(ctx):
    """What a linter reports under the user's configuration is the same before and after init-config (without --force)."""
    which = ctx.pick("user_setting", tuple(BEHAVIOURS))
    preset = ctx.pick("preset", ("standard", "strict", "lenient"))
    text, cmd, fname = BEHAVIOURS[which]
    d = Path(tempfile.mkdtemp(prefix="c20b-"))
    try:
        (d / ".git").mkdir()
        (d / ".thailint.yaml").write_text(text)
        (d / fname).write_text(triggers.T[fname][3] if fname in triggers.T else "scratch\n")

        def findings():
            r = _invoke([cmd, "--format", "json", fname], d)
            try:
                doc = json.loads(r.output[r.output.index("{"):])
                return r.exit_code, sorted((v["rule_id"], v["line"], v["message"]) for v in doc["violations"])
            except (ValueError, KeyError):
                return r.exit_code, r.output[-200:]
        before = findings()
        r = _invoke(["init-config", "--non-interactive", "--preset", preset], d)
        after = findings()
        # control: without the user's setting the run differs (the setting does something)
        (d / ".thailint.yaml").write_text("# nothing\n")
        default = findings()
    finally:
        shutil.rmtree(d, True)
    ctx.note("user_setting", which)
    ctx.cover("setting-matters" if default != before else "setting-inert")
    ctx.require("init-config-succeeds", r.exit_code == 0, out=r.output[-200:])
    ctx.require("the-user-setting-changes-the-run", default != before, setting=which, before=before)
    ctx.require("findings-same-before-and-after-init-config", before == after, setting=which, before=before, after=after)


VALUES = {
    "log_level": (("DEBUG", True), ("WARNING", True), ("debug", False), ("LOUD", False), ("", False)),
    "output_format": (("json", True), ("yaml", True), ("xml", False), ("TEXT", False)),
    "max_retries": (("5", True), ("0", True), ("-1", False), ("abc", False), ("1.5", False), ("true", None)),
    "timeout": (("2.5", True), ("10", True), ("0", False), ("-3", False), ("soon", False), ("1e999", None), ("inf", None), ("nan", None)),
    "app_name": (("my-app", True), ("  ", False)),
    "greeting": (("Hi there", True), ("42", True), ("true", True), ("nan", None), ("-inf", None)),
    "brand_new_key": (("anything", True), ("7", True)),
    # an existing key spelled with a hyphen is the same key
    "log-level": (("DEBUG", True), ("LOUD", False)),
    "max-retries": (("7", True), ("-5", False)),
    "brand-new-key": (("anything", True), ("0", True)),
    # keys are case-sensitive: a capitalised key is a key of its own, stored and read back as typed
    "Region": (("eu-west", True),), "Timeout": (("soon", True),), "Log_Level": (("x", True),),      # keys are normalised (- to _) when the file is loaded: get must find what set stored
}


def _converted(value):
    if value.lower() in ("true", "false"):
        return value.lower() == "true"
    for conv in (int, float):
        try:
            return conv(value)
        except ValueError:
            pass
    return value


def h_config_set(ctx):
    import yaml
    from src.config import validate_config
    key = ctx.pick("key", tuple(VALUES))
    value, valid = ctx.pick("value", VALUES[key])
    fmt = ctx.pick("file_format", ("yaml", "json"))
    start = ctx.pick("starting_file", ("defaults", "customised", "absent"))
    d = Path(tempfile.mkdtemp(prefix="c20s-"))
    try:
        f = d / ("config." + fmt)
        base = {"app_name": "demo", "version": "0.1.0", "log_level": "INFO", "output_format": "text", "greeting": "Hello",
                "max_retries": 3, "timeout": 30}
        if start == "customised":
            base.update(greeting="Yo", timeout=12.5, user_note="keep me")
        if start != "absent":
            f.write_text(yaml.safe_dump(base, sort_keys=False) if fmt == "yaml" else json.dumps(base, indent=2))
        before = f.read_bytes() if f.exists() else None
        r = _invoke(["--config", str(f), "config", "set", key, value], d)
        after = f.read_bytes() if f.exists() else None
        ctx.cover("accepted" if r.exit_code == 0 else "rejected")
        if valid is not None:   # None: validity of this spelling is not documented (bool for an integer key)
            ctx.require("accepted-iff-documented-valid", (r.exit_code == 0) == valid, key=key, value=value, code=r.exit_code, out=r.output[-200:])
        if r.exit_code != 0:
            ctx.require("rejected-value-leaves-file-unchanged", before == after, key=key, value=value)
            return
        saved = yaml.safe_load(after.decode()) if fmt == "yaml" else json.loads(after.decode())
        ctx.require("written-file-passes-validation", validate_config(saved)[0], saved=saved)
        cv = _converted(value)
        sk = key if key in saved else key.replace("-", "_")
        same = saved.get(sk) == cv or (isinstance(cv, float) and cv != cv and saved.get(sk) != saved.get(sk))     # nan == nan
        ctx.require("value-survives-save-and-load", same and type(saved.get(sk)) is type(cv), key=key, value=value, got=saved.get(sk))
        if start == "customised":
            ctx.require("other-settings-kept", saved.get("user_note") == "keep me" and (key == "timeout" or saved.get("timeout") == 12.5)
                        and (key == "greeting" or saved.get("greeting") == "Yo"), saved=saved)
        g = _invoke(["--config", str(f), "config", "get", key], d)
        ctx.require("config-get-returns-the-value", g.exit_code == 0 and g.output.strip() == str(cv), out=g.output, want=str(cv))
        # the other spelling of the key names the same setting, and the file stays usable by every later command
        g2 = _invoke(["--config", str(f), "config", "get", key.replace("-", "_")], d)
        ctx.require("config-get-returns-the-value-under-the-underscore-spelling", g2.exit_code == 0 and g2.output.strip() == str(cv),
                    out=g2.output[-200:], want=str(cv), key=key)
        sh = _invoke(["--config", str(f), "config", "show"], d)
        ctx.require("configuration-still-loads-after-the-set", sh.exit_code == 0, code=sh.exit_code, out=sh.output[-200:])
    finally:
        shutil.rmtree(d, True)


def h_presets(ctx):
    import yaml
    preset = ctx.pick("preset", ("strict", "standard", "lenient"))
    cmd = ctx.pick("command", tuple(c for c in catalogue.linter_commands()))
    d = Path(tempfile.mkdtemp(prefix="c20p-"))
    try:
        (d / ".git").mkdir()
        r = _invoke(["init-config", "--non-interactive", "--preset", preset], d)
        f = d / ".thailint.yaml"
        ctx.require("init-config-creates-the-file", r.exit_code == 0 and f.exists(), out=r.output[-200:])
        if not f.exists():
            return
        try:
            doc = yaml.safe_load(f.read_text())
            ok = isinstance(doc, dict)
        except yaml.YAMLError:
            ok = False
        ctx.require("generated-file-parses", ok)
        (d / "src").mkdir()
        (d / "src" / "magic.py").write_text(triggers.T["magic.py"][3])
        (d / "src" / "unwrap.rs").write_text(triggers.T["unwrap.rs"][3])
        import src.linter_config.ignore as ign
        ign.clear_ignore_parser_cache()
        r2 = _invoke([cmd, "--format", "json", str(d / "src")], d)
        ctx.cover("accepted")
        ctx.require("every-linter-command-accepts-the-generated-file", r2.exit_code in (0, 1), command=cmd, preset=preset,
                    code=r2.exit_code, out=r2.output[-300:])
    finally:
        shutil.rmtree(d, True)


ASSUMPTIONS = (
    "existing configurations are built from a table of user sections (6 sections x hyphen/underscore spelling) plus leading comments, an extra top-level key or a GLOBAL SETTINGS marker",
    "preservation of arbitrary YAML formatting (flow style, anchors) is outside the claim: PyYAML's scanner/emitter is not symbolically executable within useful bounds",
)


def obligations(tier):
    return [
        Ob(name="K1-init-config-merge", engine="pathex", harness=h_init_merge,
           functions=["cli.config.init_config", "config_merge.perform_merge/identify_missing_sections/extract_linter_sections/merge_config_sections/_insert_before_global_settings",
                      "config_parser.parse_config_file/_normalize_config_keys"],
           bounds="forked: every subset of 6 user sections x hyphen/underscore spelling of each x 3 presets x 4 kinds of extra user content; init-config run twice",
           timeout=900, workers=14, must_cover=("merged", "empty-existing")),
        Ob(name="K1b-behaviour-unchanged-by-init-config", engine="pathex", harness=h_init_behaviour,
           functions=["thailint init-config (merge)", "each linter's section lookup (documented and alternative section names)", "thailint <command> --format json"],
           bounds="forked: %d user settings written under the documented (or an accepted alternative) section name x 3 presets; the linter's findings before vs after the merge" % len(BEHAVIOURS),
           timeout=600, workers=14, must_cover=("setting-matters",)),
        Ob(name="K3-config-set-get", engine="pathex", harness=h_config_set,
           functions=["cli.config.config_set/_convert_value_type/_validate_and_report_errors/_save_and_report_success/config_get", "src.config.load_config/save_config/validate_config",
                      "cli.main.cli (config loading)"],
           bounds="forked: 7 keys x 2-6 values each (valid and documented-invalid) x {yaml, json} x starting file (defaults / customised / absent)",
           timeout=600, workers=14, must_cover=("accepted", "rejected")),
        Ob(name="K4-presets-accepted-by-every-command", engine="pathex", harness=h_presets,
           functions=["cli.config.init_config/_generate_config_content/_write_config_file", "every linter command with the generated file as project config"],
           bounds="forked: 3 presets x every linter command",
           timeout=600, workers=14, must_cover=("accepted",)),
    ]
