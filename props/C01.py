"""C01 — nesting: flags exactly the functions whose documented depth exceeds the limit."""
from __future__ import annotations

import re

from vsym import render
from vsym.pathex import And, Eq, Implies, Not, Or
from vsym.repo import mkctx
from vsym.runner import Ob

LANGS = ("python", "typescript", "javascript", "rust")


def make_h(nmax, cons_sel, deep_subset):
    def h(ctx):
        from src.linters.nesting.linter import NestingDepthRule
        lang = ctx.pick("lang", LANGS)
        cons = cons_sel(lang)
        limit = ctx.int("max_nesting_depth", 1)
        cfg = {"max_nesting_depth": limit}
        eff = ctx.int("eff")          # auxiliary: the effective limit, named for finding signatures
        # secondary dimensions are varied one at a time around a base case
        variant = ctx.pick("variant", ("base", "sibling", "override-own", "override-other", "two-functions")
                           + tuple("kind-" + k for k in render.kinds(lang)[1:]))
        if variant.startswith("override"):
            ol = ctx.int("lang_limit", 1)
            own = variant == "override-own"
            key = lang if own else ("typescript" if lang == "python" else "python")
            cfg[key] = {"max_nesting_depth": ol}
            ctx.assume(eff == (ol if own else limit))
        else:
            ctx.assume(eff == limit)
        nf = 2 if variant == "two-functions" else 1
        lines, funcs = ["// header" if lang != "python" else "# header", ""], []
        for f in range(nf):
            n = ctx.pick(f"len{f}", tuple(range(0, nmax + 1)) if f == 0 else (0, 2))
            chain = [ctx.pick(f"c{f}_{i}", (cons if n <= 2 else deep_subset) if f == 0 else render.COMMON[:3])
                     for i in range(n)]
            kind = variant[5:] if (variant.startswith("kind-") and f == 0) else "function"
            sib = variant == "sibling" and f == 0
            L, hi = render.function(lang, f"fn{f}", kind, chain, sib)
            funcs.append((f"fn{f}", chain, len(lines) + hi + 1, sib))
            lines += L + [""]
        content = "\n".join(lines) + "\n"
        vs = NestingDepthRule().check(mkctx(lang, content, {"nesting": cfg}))
        ctx.require("only-nesting-violations", all(v.rule_id == "nesting.excessive-depth" for v in vs),
                    got=[v.rule_id for v in vs])
        for name, chain, hl, sib in funcs:
            spec = max(1 + len(chain), 2 if sib else 1)
            ctx.note("spec_depth", spec)
            ctx.note("chain", list(chain))
            ctx.note("n_elif", sum(1 for c in chain if c == "elif"))
            ctx.note("n_async_block", sum(1 for c in chain if c == "async-block"))
            # nested functions are reported under a generic name: the header line identifies the function
            mine = [v for v in vs if f"'{name}'" in v.message or v.line == hl]
            ctx.cover("reported" if mine else "clean")
            ctx.require("reported-iff-depth-exceeds-limit", Eq(len(mine) == 1, spec > eff),
                        fn=name, chain=chain, spec_depth=spec, reported=len(mine))
            ctx.require("at-most-one-violation-per-function", len(mine) <= 1)
            for v in mine:
                m = re.search(r"\((\d+)\)", v.message)
                got = int(m.group(1)) if m else None
                ctx.note("msg_delta", None if got is None else got - spec)
                ctx.require("message-states-depth", got == spec, msg=v.message, spec_depth=spec)
                ctx.require("at-function-header", v.line == hl, got=v.line, want=hl)
    return h


# ------------------------------------------------------------------ K2: symbolic node kinds over the whole grammar
DOC_KINDS = {
    # documented nesting constructs -> the grammar kinds that carry them
    "typescript": ("if_statement", "for_statement", "for_in_statement", "while_statement", "do_statement", "try_statement", "switch_statement"),
    "rust": ("if_expression", "match_expression", "for_expression", "while_expression", "loop_expression", "closure_expression", "async_block"),
}
DONT_CARE = {"typescript": ("with_statement",), "rust": ()}     # counted by the code, neither listed nor excluded by the docs


def make_h_kinds(n):
    def h(ctx):
        from vsym.nodes import Duck
        from vsym.pathex import If
        import src.linters.nesting.rust_analyzer as rs_mod
        import src.linters.nesting.typescript_analyzer as ts_mod
        from vsym.symkind import SKind, kind_table, symbolic_tables
        lang = ctx.pick("grammar", ("typescript", "rust"))
        table = kind_table(lang)
        if lang == "typescript":
            from src.linters.nesting.typescript_analyzer import TypeScriptNestingAnalyzer as A
            body_kind, fn_kind = "statement_block", "function_declaration"
            if_kind = "if_statement"
        else:
            from src.linters.nesting.rust_analyzer import RustNestingAnalyzer as A
            body_kind, fn_kind = "block", "function_item"
            if_kind = "if_expression"
        kinds = [SKind(ctx, f"kind{i}", table) for i in range(n)]
        for k in kinds:
            for dc in DONT_CARE[lang]:
                ctx.assume(k != dc)
        # chain: body -> node0 -> node1 -> ... -> leaf ; rows increase so the deepest line is known
        leaf = Duck("identifier", "x", start=(n + 2, 0))
        node = leaf
        for i in reversed(range(n)):
            node = Duck(kinds[i], "", [node], start=(i + 2, 0))
        body = Duck(body_kind, "", [node], start=(1, 0))
        func = Duck(fn_kind, "", [Duck("identifier", "f"), body], start=(0, 0))
        with symbolic_tables(A, ts_mod if lang == "typescript" else rs_mod):
            depth, _line = A().calculate_max_depth(func)
        spec = 1
        for i, k in enumerate(kinds):
            counted = k.is_one_of(DOC_KINDS[lang])
            if i > 0:   # an else-if continues its chain (documented: an if/elif/else chain counts once)
                counted = And(counted, Not(And(k == if_kind, kinds[i - 1] == "else_clause")))
            spec = spec + If(counted, 1, 0)
        ctx.cover("depth>1" if (depth > 1 if not hasattr(depth, "z") else bool(depth > 1)) else "depth=1")
        ctx.require("every-listed-kind-adds-a-level-and-nothing-else-does", Eq(depth, spec), grammar=lang, chain=n)
    return h


def h_mixed_language_run(ctx):
    """One rule object, one config dict, files of two languages in one run (as the orchestrator does)."""
    from src.linters.nesting.linter import NestingDepthRule
    l1 = ctx.pick("first_language", LANGS)
    l2 = ctx.pick("second_language", LANGS)
    chain = [ctx.pick(f"c{i}", ("if", "for", "while")) for i in range(ctx.pick("len", (1, 2, 3)))]
    top = ctx.int("max_nesting_depth", 1)
    ov_lang = ctx.pick("override_for", ("none", "first", "second"))
    cfg = {"max_nesting_depth": top}
    eff = {l1: top, l2: top}
    if ov_lang != "none":
        ov = ctx.int("lang_limit", 1)
        key = l1 if ov_lang == "first" else l2
        cfg[key] = {"max_nesting_depth": ov}
        eff[key] = ov
    md = {"nesting": cfg}           # the SAME dict object for every file of the run
    rule = NestingDepthRule()
    spec = 1 + len(chain)
    for lang in (l1, l2):
        L, hi = render.function(lang, "fn0", "function", chain, False)
        vs = rule.check(mkctx(lang, "\n".join(L) + "\n", md))
        ctx.note("lang", lang)
        ctx.note("spec_depth", spec)
        # the auxiliary `eff` of K1 is not declared here: express the Python off-by-one directly
        want = (spec - (1 if lang == "python" else 0)) > eff[lang]
        ctx.cover("reported" if vs else "clean")
        ctx.require("verdict-uses-the-limit-of-the-file's-own-language", Eq(len(vs) == 1, want), lang=lang, first=l1, second=l2, override_for=ov_lang)


def _all(lang):
    return render.constructs(lang)


ASSUMPTIONS = (
    "documented depth = 1 + number of documented constructs enclosing the deepest statement; an if/elif/else chain is one construct",
    "limits >= 1 (non-positive limits are C05's subject)",
    "Python match/case counts as one construct (like switch/case and Rust match)",
    "nested functions are generated with construct-free bodies only",
)


def obligations(tier):
    nmax = 3 if tier == "quick" else 4
    return [
        Ob(name="K1-rule-on-rendered-skeletons", engine="pathex", harness=make_h(nmax, _all, ("if", "elif", "for", "while") if tier == "quick" else render.COMMON),
           functions=["NestingDepthRule.check", "_dispatch_by_language", "load_linter_config", "NestingConfig.from_dict/__post_init__",
                      "PythonNestingAnalyzer.calculate_max_depth/_visit_node/_visit_if_node/_visit_control_structure/_is_elif_chain",
                      "TypeScriptNestingAnalyzer.calculate_max_depth", "TypeScriptFunctionExtractor.collect_all_functions",
                      "RustNestingAnalyzer.calculate_max_depth/find_all_functions", "_process_*_functions",
                      "NestingViolationBuilder.create_*"],
           bounds="max_nesting_depth and per-language override unbounded integers >= 1 (symbolic to the end); forked: 4 languages, "
                  "chain of 0..%d constructs (length <= 2: the language's whole documented list (%s); longer: if/elif/for/while[/if-else/else-deep]), and one of: function kind, sibling construct, own/other-language override, second function"
                  % (nmax, "py %d / ts %d / rs %d kinds" % (len(render.PY), len(render.TS), len(render.RS))),
           timeout=300 if tier == "quick" else 2400, workers=14, must_cover=("reported", "clean"),
           outside="JSX, macros, labelled blocks, generators, Python match/case, constructs inside nested functions"),
        Ob(name="K1c-two-languages-one-rule-object", engine="pathex", harness=h_mixed_language_run,
           functions=["NestingDepthRule.check/_load_config (state carried from file to file)", "load_linter_config", "NestingConfig.from_dict"],
           bounds="top-level limit and one per-language override unbounded integers >= 1 (symbolic); forked: ordered pair of languages (16), chain of 1-3 constructs, override for the first / second / no language. "
                  "Python's known one-less depth is built into this obligation's expectation (it is about which limit applies)",
           timeout=300, workers=14, must_cover=("reported", "clean")),
        Ob(name="K2-symbolic-node-kinds-whole-grammar", engine="pathex", harness=make_h_kinds(3 if tier == "quick" else 5),
           functions=["TypeScriptNestingAnalyzer.calculate_max_depth/_increases_depth", "RustNestingAnalyzer.calculate_max_depth/_increases_depth"],
           bounds="chain of %d duck-typed nodes below the function body; the kind of EVERY node is a solver variable ranging over the complete kind table of the real grammar "
                  "(TypeScript 383 kinds, Rust 355 kinds; symbolic to the end) - one path per behaviour class" % (3 if tier == "quick" else 5),
           timeout=300 if tier == "quick" else 1500, workers=8, must_cover=("depth>1", "depth=1"),
           stubs=("duck-typed tree-sitter nodes", "SymSet wrapper around NESTING_NODE_TYPES (membership = disjunction over the real constant's current elements)"),
           outside="with_statement (counted by the code, neither listed nor excluded by the documentation)"),
    ]
