"""C06 — exit code and text/JSON/SARIF renderings agree with the violations found."""
from __future__ import annotations

import atexit
from collections import Counter
import json
import os
import re
import shutil
import tempfile
from pathlib import Path

from vsym.pathex import And, Eq, Or
from vsym.runner import Ob
from vsym import catalogue

RULES = ("nesting.excessive-depth", "srp.violation", "magic-numbers.numeric-literal")
TEXTS = ("plain", 'quote " and \\ backslash', "non-ascii é 日本 ✓", "two\nlines", "tab\tx", "bad byte \udcff in a name",
         "lone surrogate \ud83d from a string literal")
PATHS = ("src/a.py", "dir with space/é.py", "/abs/x.ts", "dir/bad\udcff.py")


def _shown(text):
    """What every rendering shows for text taken from undecodable file names / contents (surrogate-escaped
    bytes cannot be written as UTF-8): the same replacement in all three formats."""
    return "".join("\ufffd" if 0xD800 <= ord(c) <= 0xDFFF else c for c in text)


class _Rec:
    """Stands in for the `json` module inside src.core.cli_utils while ints are symbolic:
    records the object handed to dumps (identity contract) instead of encoding it."""

    def __init__(self):
        self.objs = []

    def dumps(self, obj, **kw):
        self.objs.append(obj)
        return "@JSON%d@" % (len(self.objs) - 1)


_TIER = {"t": "quick"}


def h_formatters(ctx):
    import src.core.cli_utils as cu
    from src.core.types import Violation
    from src.formatters.sarif import SarifFormatter
    import click

    n = ctx.pick("n", (0, 1, 2, 3) if _TIER["t"] == "quick" else (0, 1, 2, 3, 4))
    vs, spec = [], []
    for i in range(n):
        rid = ctx.pick(f"rule{i}", RULES)
        line = ctx.int(f"line{i}", 1)
        col = ctx.int(f"col{i}", 0)
        msg = ctx.pick(f"msg{i}", TEXTS if i == 0 else TEXTS[1:2])
        path = ctx.pick(f"path{i}", PATHS if i == 0 else PATHS[:1])
        vs.append(Violation(rule_id=rid, file_path=path, line=line, column=col, message=msg))
        spec.append((rid, path, line, col, msg))
    echoed = []
    real_json, real_echo = cu.json, click.echo
    rec = _Rec() if ctx.symbolic else None
    try:
        if rec:
            cu.json = rec
        click.echo = lambda m=None, **kw: echoed.append("" if m is None else str(m))
        cu.format_violations(vs, "json")
        j_out = list(echoed); echoed.clear()
        cu.format_violations(vs, "sarif")
        s_out = list(echoed); echoed.clear()
        cu.format_violations(vs, "text")
        t_out = list(echoed); echoed.clear()
    except UnicodeError as e:
        ctx.require("every-rendering-completes", False, error=repr(e)[:160], texts=[(s_[1], s_[4]) for s_ in spec])
        return
    finally:
        cu.json, click.echo = real_json, real_echo
    if rec:
        jdoc, sdoc = rec.objs[0], rec.objs[1]
    else:
        jdoc, sdoc = json.loads("\n".join(j_out)), json.loads("\n".join(s_out))
        ctx.require("json-utf8", "\n".join(j_out).encode("utf-8") is not None)
        sarif_text = json.dumps(sdoc, ensure_ascii=False)
        try:
            sarif_text.encode("utf-8")
            sarif_ok = True
        except UnicodeEncodeError:
            sarif_ok = False
        ctx.require("sarif-is-representable-as-utf8", sarif_ok)
    # ---- JSON
    ctx.require("json-total", Eq(jdoc["total"], n))
    ctx.require("json-count", len(jdoc["violations"]) == n)
    for (rid, path, line, col, msg), d in zip(spec, jdoc["violations"]):
        ctx.require("json-fields", And(d["rule_id"] == rid, d["file_path"] == _shown(path), d["message"] == _shown(msg),
                                       Eq(d["line"], line), Eq(d["column"], col)))
    # ---- SARIF
    ctx.require("sarif-version", sdoc.get("version") == "2.1.0")
    run = sdoc["runs"][0]
    declared = [r["id"] for r in run["tool"]["driver"]["rules"]]
    ctx.require("sarif-rules-dedup", len(declared) == len(set(declared)))
    ctx.require("sarif-rules-exact", set(declared) == {s[0] for s in spec})
    ctx.require("sarif-count", len(run["results"]) == n)
    for (rid, path, line, col, msg), r in zip(spec, run["results"]):
        reg = r["locations"][0]["physicalLocation"]["region"]
        uri = r["locations"][0]["physicalLocation"]["artifactLocation"]["uri"]
        ctx.require("sarif-fields", And(r["ruleId"] == rid, r["message"]["text"] == _shown(msg), uri == _shown(path)))
        ctx.require("sarif-ruleid-declared", r["ruleId"] in declared)
        ctx.require("sarif-1-based", And(Eq(reg["startLine"], line), Eq(reg["startColumn"], col + 1),
                                         reg["startLine"] >= 1, reg["startColumn"] >= 1))
    # ---- text
    text = "\n".join(t_out)
    if n == 0:
        ctx.require("text-empty", "No violations" in text)
    else:
        ctx.require("text-count", f"Found {n} violation" in text)
        locs = [l.strip() for l in t_out if l.startswith("  ") and not l.startswith("    ")]
        ctx.require("text-one-location-per-violation", len(locs) == n)
        for (rid, path, line, col, msg), loc in zip(spec, locs):
            if ctx.symbolic:
                col_nonzero = bool(col != 0)   # the branch the real code took is now in the pc
            else:
                col_nonzero = col != 0
            want = f"{_shown(path)}:{line}" + (f":{col}" if col_nonzero else "")
            ctx.require("text-location", loc == want, got=loc, want=want)
            ctx.require("text-rule-and-message", f"{rid}: {_shown(msg)}" in text)
    ctx.cover("n=%d" % n)


# ------------------------------------------------------------------ exit codes per command
_PROJ = {}


def _project():
    if "d" not in _PROJ:
        d = tempfile.mkdtemp(prefix="c06proj-")
        atexit.register(shutil.rmtree, d, True)
        open(os.path.join(d, "a.py"), "w").write("x = 1\n")
        open(os.path.join(d, ".thailint.yaml"), "w").write("nesting:\n  enabled: true\n")
        open(os.path.join(d, "bad.yaml"), "w").write("nesting: [unclosed\n  : :\n")
        open(os.path.join(d, "bad.json"), "w").write("{\"nesting\": ")
        open(os.path.join(d, "empty.yaml"), "w").write("")
        open(os.path.join(d, "comment.yaml"), "w").write("# nothing configured yet\n")
        os.mkdir(os.path.join(d, ".git"))
        _PROJ["d"] = d
    return _PROJ["d"]


def _cli_modules():
    import importlib, pkgutil
    pkg = importlib.import_module("src.cli.linters")
    return [importlib.import_module(m.name) for m in pkgutil.iter_modules(pkg.__path__, "src.cli.linters.")]


def _numeric_options():
    """(command, option) for every integer/float option of a linter command, read from click."""
    import click
    import importlib
    from src.cli_main import cli
    importlib.import_module("src.cli.linters")
    out = []
    for name in catalogue.linter_commands():
        for p in cli.commands[name].params:
            if isinstance(p, click.Option) and (p.type in (click.INT, click.FLOAT) or isinstance(p.type, (click.IntRange, click.FloatRange))):
                out.append((name, p.opts[0]))
    return tuple(sorted(out))


def h_invalid_options(ctx):
    """A threshold option with a value the linter documents as invalid (non-positive, not a number) is an
    invalid option: the run exits 2 in every format - it is never silently replaced by the default."""
    from click.testing import CliRunner
    from src.cli_main import cli
    opts = _numeric_options()
    cmd, opt = ctx.pick("option", opts)
    value = ctx.pick("value", ("0", "-1", "-999", "abc", "1.5", ""))
    fmt = ctx.pick("format", ("text", "json", "sarif"))
    also = ctx.pick("other_options_of_the_command", ("none", "same-invalid-value", "valid-value"))
    d = triggers_project()
    args = [cmd, "--format", fmt, opt, value]
    for c2, o2 in opts:
        if c2 == cmd and o2 != opt and also != "none":
            args += [o2, value if also == "same-invalid-value" else "7"]
    res = CliRunner().invoke(cli, args + [str(d)], catch_exceptions=True)
    ctx.note("command", cmd)
    ctx.cover("exit%d" % res.exit_code)
    ctx.require("no-uncaught-exception", res.exception is None or isinstance(res.exception, SystemExit), exc=repr(res.exception))
    ctx.require("invalid-option-value-exits-2", res.exit_code == 2, got=res.exit_code, args=args[:-1], out=res.output[-200:])


# ---------------------------------------------------------------- invalid VALUES in a well-formed config file
# (command, section, yaml body lines below the section header) -- every entry carries a value its linter documents as invalid
THRESHOLD_KEYS = (
    ("nesting", "nesting", "max_nesting_depth"), ("srp", "srp", "max_methods"), ("srp", "srp", "max_loc"),
    ("dry", "dry", "min_duplicate_lines"), ("dry", "dry", "min_occurrences"), ("dry", "dry", "min_duplicate_tokens"),
    ("magic-numbers", "magic-numbers", "max_small_integer"), ("stringly-typed", "stringly-typed", "min_occurrences"),
    ("pipeline", "collection-pipeline", "min_continues"),
    ("dry", "dry", "python:\n    min_occurrences"), ("dry", "dry", "typescript:\n    min_occurrences"),      # language sub-sections
)
BAD_NUMBERS = ("0", "-1", "abc", "[1]", "{a: 1}")
BAD_REGEX = "'*.tmp.py'"
PLACEMENT_BODIES = {        # name -> lines of the file-placement section; each holds ONE invalid rule
    "global_deny": ["  global_deny:", "    - pattern: @", "      reason: r"],
    "global_patterns.deny-without-allow": ["  global_patterns:", "    deny:", "      - pattern: @", "        reason: r"],
    "global_patterns.allow-only": ["  global_patterns:", "    allow:", "      - @"],
    "global_patterns.deny-with-allow": ["  global_patterns:", "    allow:", "      - '.*'", "    deny:", "      - pattern: @", "        reason: r"],
    "directories.src.allow": ["  directories:", "    src:", "      allow:", "        - @"],
    "directories.src.deny-without-allow": ["  directories:", "    src:", "      deny:", "        - pattern: @", "          reason: r"],
    "directories.src.deny-with-allow": ["  directories:", "    src:", "      allow:", "        - '.*'", "      deny:", "        - pattern: @", "          reason: r"],
    "directories.second-entry-after-an-allow-only-entry": ["  directories:", "    docs:", "      allow:", "        - '.*'", "    src:", "      deny:", "        - pattern: @", "          reason: r"],
    "directories.second-entry-after-a-deny-only-entry": ["  directories:", "    docs:", "      deny:", "        - pattern: 'zzz'", "          reason: r", "    src:", "      allow:", "        - @"],
    "deny-rule-without-a-pattern": ["  global_deny:", "    - reason: no pattern given"],
}


def h_invalid_config_values(ctx):
    """A parsable configuration whose value is one the linter documents as invalid (a non-positive or non-numeric
    threshold, a regular expression that does not compile, a deny rule without a pattern) is a malformed config:
    the command exits 2 in every format and through every carrier -- it never ends with 0 and an empty report."""
    from click.testing import CliRunner
    from src.cli_main import cli
    import src.linter_config.ignore as ign
    kind = ctx.pick("kind", ("threshold", "file-placement-rule"))
    fmt = ctx.pick("format", ("text", "json", "sarif"))
    carrier = ctx.pick("carrier", (".thailint.yaml", "--config"))
    if kind == "threshold":
        cmd, section, key = ctx.pick("key", THRESHOLD_KEYS)
        value = ctx.pick("value", BAD_NUMBERS)
        lines = ["%s:" % section] + (["  enabled: true"] if section == "dry" else []) + ["  %s: %s" % (key, value)]
    else:
        cmd = "file-placement"
        name = ctx.pick("rule_position", tuple(PLACEMENT_BODIES))
        lines = ["file-placement:"] + [l.replace("@", BAD_REGEX) for l in PLACEMENT_BODIES[name]]
    src0 = triggers_project()
    d = Path(tempfile.mkdtemp(prefix="c06cfg-"))
    try:
        (d / ".git").mkdir()
        shutil.copytree(src0 / "src", d / "src")
        (d / "docs").mkdir()
        (d / "docs" / "x.md").write_text("# x\n")
        args = [cmd, "--format", fmt]
        if carrier == "--config":
            (d / "custom.yaml").write_text("\n".join(lines) + "\n")
            args += ["--config", str(d / "custom.yaml")]
        else:
            (d / ".thailint.yaml").write_text("\n".join(lines) + "\n")
        ign.clear_ignore_parser_cache()
        res = CliRunner().invoke(cli, ["--project-root", str(d)] + args + [str(d)], catch_exceptions=True)
    finally:
        shutil.rmtree(d, True)
        ign.clear_ignore_parser_cache()
    ctx.cover("exit%d" % res.exit_code)
    ctx.require("no-uncaught-exception", res.exception is None or isinstance(res.exception, SystemExit), exc=repr(res.exception))
    ctx.require("invalid-config-value-exits-2", res.exit_code == 2, got=res.exit_code, config=lines, out=res.output[-200:])


_TP = {}


def triggers_project():
    """A real project that triggers the linters owning numeric options (per process)."""
    from pathlib import Path
    from vsym import triggers
    if _TP.get("pid") != os.getpid():
        d = tempfile.mkdtemp(prefix="c06real-")
        atexit.register(shutil.rmtree, d, True)
        triggers.write_project(d, names={"nest.py", "srp.ts", "dup1.py", "dup2.py", "magic.py", "unwrap.rs"})
        (Path(d) / "src" / "loop.py").write_text("def g(items):\n    out = []\n    for i in items:\n        if not i:\n            continue\n        out.append(i)\n    return out\n")
        _TP.update(pid=os.getpid(), d=Path(d))
    return _TP["d"]


def h_exit_codes(ctx):
    from click.testing import CliRunner
    from src.cli_main import cli
    from src.core.types import Violation

    d = _project()
    cmds = catalogue.linter_commands()
    universe = catalogue.rule_id_universe()
    cmd = ctx.pick("cmd", cmds)
    fmt = ctx.pick("format", ("text", "json", "sarif"))
    mode = ctx.pick("mode", ("run", "stub-raises-RuntimeError", "stub-raises-OSError", "missing-path", "existing-then-missing-path", "missing-then-existing-path",
                             "missing-config", "malformed-yaml-config", "malformed-json-config",
                             "bad-format-option", "empty-config-file", "comment-only-config-file"))
    own_ids = [i for i in universe if catalogue.owns(cmd, i)]
    foreign_ids = [i for i in universe if not any(catalogue.owns(c, i) for c in cmds if
                                                   catalogue.CMD_PREFIX[c] == catalogue.CMD_PREFIX[cmd]
                                                   or catalogue.owns(cmd, i))]
    if cmd in ("string-concat-loop", "regex-in-loop"):
        foreign_ids = [i for i in universe if not catalogue.owns(cmd, i)]
    k = j = 0
    if mode == "run":
        top = 2 if _TIER["t"] == "quick" else 4
        k = int(ctx.int("own", 0, top))
        j = int(ctx.int("foreign", 0, top))
    stub_vs = [Violation(rule_id=own_ids[i % len(own_ids)], file_path="a.py", line=1 + i, column=i,
                         message="own %d" % i) for i in range(k)]
    stub_vs += [Violation(rule_id=foreign_ids[(7 * i + len(cmd)) % len(foreign_ids)], file_path="a.py",
                          line=9, column=0, message="foreign %d" % i) for i in range(j)]

    def stub(orchestrator, path_objs, recursive, parallel=False):
        if mode == "stub-raises-RuntimeError":
            raise RuntimeError("boom")
        if mode == "stub-raises-OSError":
            raise OSError("disk")
        return list(stub_vs)

    mods = _cli_modules()
    saved = [(m, m.execute_linting_on_paths) for m in mods if hasattr(m, "execute_linting_on_paths")]
    args = [cmd, "--format", fmt]
    target = os.path.join(d, "a.py")
    if mode == "missing-path":
        target = os.path.join(d, "no-such-file.py")
    elif mode == "missing-config":
        args += ["--config", os.path.join(d, "nope.yaml")]
    elif mode == "malformed-yaml-config":
        args += ["--config", os.path.join(d, "bad.yaml")]
    elif mode == "malformed-json-config":
        args += ["--config", os.path.join(d, "bad.json")]
    elif mode == "empty-config-file":
        args += ["--config", os.path.join(d, "empty.yaml")]
    elif mode == "comment-only-config-file":
        args += ["--config", os.path.join(d, "comment.yaml")]
    elif mode == "bad-format-option":
        args = [cmd, "--format", "xml"]
    args.append(target)
    if mode == "existing-then-missing-path":
        args.append(os.path.join(d, "no-such-file.py"))
    elif mode == "missing-then-existing-path":
        args[-1:] = [os.path.join(d, "no-such-file.py"), target]
    try:
        for m, _f in saved:
            m.execute_linting_on_paths = stub
        res = CliRunner().invoke(cli, args, catch_exceptions=True)
    finally:
        for m, f in saved:
            m.execute_linting_on_paths = f
    code = res.exit_code
    ctx.note("exit", code)
    ctx.cover("exit%d" % code)
    ctx.require("no-uncaught-exception", res.exception is None or isinstance(res.exception, SystemExit),
                exc=repr(res.exception))
    if mode in ("empty-config-file", "comment-only-config-file"):
        # an empty configuration is a valid one: the run is performed (the stub reports no violation)
        ctx.require("empty-config-is-not-an-error", code == 0, got=code, out=res.output[-300:])
        return
    if mode != "run":
        ctx.require("usage-error-exits-2", code == 2, got=code, out=res.output[-300:])
        return
    ctx.require("exit-1-iff-own-violations", code == (1 if k > 0 else 0), got=code, own=k, foreign=j)
    out = res.output
    if fmt in ("json", "sarif"):
        try:
            doc = json.loads(out)
        except ValueError:
            ctx.require("output-is-well-formed-json", False, out=out[:200])
            return
        ctx.require("output-is-well-formed-json", isinstance(doc, dict))
    if fmt == "json":
        ctx.require("json-lists-exactly-own", doc["total"] == k and len(doc["violations"]) == k and
                    all(catalogue.owns(cmd, v["rule_id"]) for v in doc["violations"]), out=out[-300:])
    elif fmt == "sarif":
        rs = doc["runs"][0]["results"]
        ctx.require("sarif-lists-exactly-own", len(rs) == k and all(catalogue.owns(cmd, r["ruleId"]) for r in rs))
    else:
        ctx.require("text-lists-exactly-own", ("No violations" in out) == (k == 0) and
                    out.count("own ") == k and "foreign" not in out, out=out[-300:])


# ---------------------------------------------------------------- one project, three renderings, three processes
_RP = {}


def _render_project():
    if _RP.get("pid") != os.getpid():
        from vsym import triggers
        d = tempfile.mkdtemp(prefix="c06rend-")
        atexit.register(shutil.rmtree, d, True)
        triggers.write_project(d)
        # one variable compared with == to different literals in two files (messages that list the values)
        (Path(d) / "src" / "routing.py").write_text("def route(state):\n    if state == \"loaded\":\n        return 1\n    if state == \"queued\":\n        return 2\n"
                                                   "    if state == \"packed\":\n        return 3\n    return 0\n")
        (Path(d) / "src" / "report.py").write_text("def report(state):\n    if state == \"transit\":\n        return 1\n    if state == \"customs\":\n        return 2\n"
                                                  "    if state == \"packed\":\n        return 3\n    return 0\n")
        _RP.update(pid=os.getpid(), d=Path(d))
    return _RP["d"]


def h_renderings_in_separate_processes(ctx):
    """The command line renders one format per invocation: the three renderings of one project come from three
    interpreter processes (each with its own string-hash seed) and must still describe the same violations."""
    import subprocess
    import sys
    cmd = ctx.pick("command", tuple(c for c in catalogue.linter_commands() if c != "file-placement"))
    d = _render_project()
    outs = {}
    for seed, fmt in ((11, "text"), (12, "json"), (13, "sarif")):
        env = dict(os.environ, PYTHONPATH=os.environ.get("VERIF_REPO", "/repo"), PYTHONHASHSEED=str(seed))
        p = subprocess.run([sys.executable, "-m", "src.cli_main", "--project-root", str(d), cmd, "--format", fmt, str(d / "src")],
                           capture_output=True, text=True, env=env, timeout=300, cwd=str(d))
        outs[fmt] = (p.returncode, p.stdout)
    codes = {f: c for f, (c, _o) in outs.items()}
    ctx.cover("ran")
    ctx.require("same-exit-code-in-every-format", len(set(codes.values())) == 1 and codes["json"] in (0, 1), codes=codes)
    if codes["json"] not in (0, 1) or len(set(codes.values())) != 1:
        return
    jdoc, sdoc = json.loads(outs["json"][1]), json.loads(outs["sarif"][1])
    jv = Counter((v["rule_id"], v["file_path"], v["line"], v["column"], v["message"]) for v in jdoc["violations"])
    sv = Counter((r["ruleId"], r["locations"][0]["physicalLocation"]["artifactLocation"]["uri"],
                  r["locations"][0]["physicalLocation"]["region"]["startLine"],
                  r["locations"][0]["physicalLocation"]["region"]["startColumn"] - 1, r["message"]["text"]) for r in sdoc["runs"][0]["results"])
    ctx.cover("findings" if jv else "clean")
    ctx.require("json-and-sarif-describe-the-same-violations", jv == sv, command=cmd,
                only_json=[list(k)[:5] for k in list(jv - sv)[:2]], only_sarif=[list(k)[:5] for k in list(sv - jv)[:2]])
    text = outs["text"][1]
    missing = [m for (_r, _f, _l, _c, m) in jv if m.split("\n")[0] not in text]
    ctx.require("text-shows-every-message-of-the-json-report", not missing, command=cmd, missing=missing[:2])


ASSUMPTIONS = (
    "json.dumps inside src.core.cli_utils is replaced by a recorder (identity contract) while line/column are symbolic; "
    "witness replays use the real encoder",
    "execute_linting_on_paths is stubbed in the exit-code harness: it returns k own and j foreign violations or raises",
    "command -> rule-id ownership is the documented mapping (vsym/catalogue.py CMD_PREFIX)",
)


def obligations(tier):
    _TIER["t"] = tier
    return [
        Ob(name="K1-formatters", engine="pathex", harness=h_formatters,
           functions=["src.core.cli_utils.format_violations", "_output_json", "_output_sarif", "_output_text",
                      "_print_violation", "_sanitize_string", "SarifFormatter.format/_create_run/_create_tool/"
                      "_create_rules/_create_rule/_create_result/_create_location"],
           bounds="0..3 (thorough: 0..4) violations; line >= 1 and column >= 0 unbounded integers (symbolic to the end); "
                  "rule id from 3 ids incl. duplicates; message/path from a concrete table with quotes, "
                  "newline, tab, non-ASCII (forked)",
           timeout=200, workers=12, must_cover=("n=0", "n=1", "n=3"), witnesses=40 if tier == "quick" else 200,
           stubs=("json.dumps recorder in cli_utils (symbolic runs only)", "click.echo capture"),
           outside="surrogate-escaped bytes / lone surrogates (C codec calls, not symbolic)"),
        Ob(name="K2c-invalid-option-values", engine="pathex", harness=h_invalid_options,
           functions=["every integer/float option of every linter command (discovered from click)", "_apply_*_config_override / set_config_value",
                      "<Linter>Config.__post_init__ validation", "handle_linting_error"],
           bounds="forked: every numeric option x values {0, -1, -999, abc, 1.5, ''} x 3 formats x the command's other numeric options {absent, same invalid value, valid value}; real lint run on a project that triggers the linters",
           timeout=600, workers=14, must_cover=("exit2",)),
        Ob(name="K2d-invalid-config-values", engine="pathex", harness=h_invalid_config_values,
           functions=["<Linter>Config.__post_init__/from_dict validation (nesting, srp, dry, magic-numbers, stringly-typed, collection-pipeline)",
                      "core.linter_utils.require_number", "file_placement.PatternValidator.validate_config (+helpers)", "FilePlacementRule config loading",
                      "Orchestrator._safe_check_rule (ValueError propagation)", "handle_linting_error"],
           bounds="forked: %d threshold keys x values {%s}; %d positions of an uncompilable regex / pattern-less deny rule in a file-placement "
                  "section; x 3 formats x {.thailint.yaml, --config}; real lint run on a project that triggers the linters"
                  % (len(THRESHOLD_KEYS), ", ".join(BAD_NUMBERS), len(PLACEMENT_BODIES)),
           timeout=600, workers=14, must_cover=("exit2",),
           outside="structural type errors of whole sections (a section that is a scalar, `directories: 5`); unknown keys"),
        Ob(name="K3-renderings-from-separate-processes", engine="pathex", harness=h_renderings_in_separate_processes,
           functions=["src.cli_main (three real invocations per command, one per format)", "every rule's message builder", "format_violations / SarifFormatter"],
           bounds="forked: every linter command on the whole trigger catalogue plus a scattered-comparison pair; text, JSON and SARIF produced by "
                  "separate interpreter processes with string-hash seeds 11, 12, 13",
           timeout=900, workers=12, must_cover=("ran", "findings")),
        Ob(name="K2-exit-codes-every-command", engine="pathex", harness=h_exit_codes,
           functions=["every click command under src.cli.linters (via src.cli_main.cli)", "_execute_*_lint",
                      "_run_*_lint filters", "run_linter_command", "handle_linting_error",
                      "validate_paths_exist", "setup_base_orchestrator", "load_config_file",
                      "format_violations"],
           bounds="all linter commands x 3 formats x (own 0..2, foreign 0..2 violations) + 9 usage-error classes "
                  "(enumerated by forking; nothing stays symbolic here)",
           timeout=400, workers=14, must_cover=("exit0", "exit1", "exit2"),
           stubs=("execute_linting_on_paths returns a prepared list / raises",)),
    ]
