"""C13 — meaning-preserving edits leave the findings unchanged up to line shift."""
from __future__ import annotations

import atexit
import os
import re
import shutil
import tempfile
from collections import Counter
from pathlib import Path

from vsym import triggers
from vsym.pathex import And, Eq, Implies, Not, Or
from vsym.runner import Ob

SKIP = {"lazy.py"}
EXCLUDED_RULES = ("file-header", "lazy-ignores")     # header-sensitive / about comments themselves
_P = {}


def _proj():
    if _P.get("pid") != os.getpid():
        _P["pid"] = os.getpid()
        d = tempfile.mkdtemp(prefix="c13proj-")
        atexit.register(shutil.rmtree, d, True)
        (Path(d) / ".git").mkdir()
        (Path(d) / ".thailint.yaml").write_text(triggers.BASE_CONFIG)
        (Path(d) / "src").mkdir()
        _P["d"] = Path(d)
    return _P["d"]


# triggers sitting exactly on a threshold: an inserted blank/comment line must not tip them over
_SRP_PY = "class Ledger:\n" + "".join(f"    def op{i}(self):\n        return {i}\n" for i in range(3))
_SRP_TS = "class Ledger {\n" + "".join(f"  op{i}() {{\n    return {i};\n  }}\n" for i in range(3)) + "}\n"
_SRP_RS = "struct Ledger {\n    x: i32,\n}\nimpl Ledger {\n" + "".join(f"    pub fn op{i}(&self) -> i32 {{\n        {i}\n    }}\n" for i in range(3)) + "}\n"
_RS_TESTS = ("fn production(s: &str) -> i32 {\n    let v = s.parse::<i32>().unwrap();\n    v\n}\n\n#[test]\n#[ignore]\nfn checks_parse() {\n    let v = \"1\".parse::<i32>().unwrap();\n"
             "    assert_eq!(v, 1);\n}\n\n#[cfg(test)]\nmod tests {\n    use super::*;\n\n    fn helper() -> i32 {\n        \"2\".parse::<i32>().unwrap()\n    }\n}\n")
_CQS_FLUENT = ("class QueryBuilder {\n  where(clause) {\n    const parsed = parseClause(clause);\n    this.clauses.push(parsed);\n    return this;\n  }\n"
               "  limit(n) {\n    const bounded = clamp(n);\n    this.setLimit(bounded);\n    return this;\n  }\n}\n\n"
               "function fetchAndStore(db, key) {\n  const value = db.get(key);\n  db.save(key, value);\n  return value;\n}\n")
_CQS_FLUENT_PY = ("class QueryBuilder:\n    def where(self, clause):\n        parsed = parse_clause(clause)\n        self.clauses.append(parsed)\n        return self\n\n"
                  "def fetch_and_store(db, key):\n    value = db.get(key)\n    db.save(key, value)\n    return value\n")
_TS_CONSTS = ("const TIMEOUT_MS = 30000;\nconst PI_APPROX = 3.14159;\nconst LIMITS = { MAX: 512, MIN: 16 };\n\n"
              "export function wait(q: number): number {\n  return q * 250;\n}\n")
_TS_DUP_CONST = "export const MAX_RETRY_COUNT = 17;\nexport function first() { return 1; }\n"
AT_LIMIT = {
    # an assignment whose value starts on the next line: a comment may be inserted between the two lines
    "cqs-split-assignment.ts": ("typescript", "export class Repo {\n  refresh(id: string) {\n    const row =\n      this.load(id);\n    this.store(row);\n    return row;\n  }\n}\n",
                                {"cqs": {"enabled": True}}),
    # locals belong to their function: giving the second function's accumulator the name used in the first changes nothing
    "concat-two-functions.py": ("python", "def one(xs):\n    out = ''\n    for x in xs:\n        out += str(x)\n    return out\n\n\n"
                                          "def two(pairs):\n    buf = '['\n    for i, x in enumerate(pairs):\n        buf += str(x) * i\n    return buf + ']'\n", None),
    "concat-two-functions.ts": ("typescript", "function one(xs: string[]): string {\n  let out = '';\n  for (const x of xs) {\n    out += x;\n  }\n  return out;\n}\n"
                                              "function two(pairs: string[]): string {\n  let buf = '[';\n  for (let i = 0; i < pairs.length; i++) {\n    buf += pairs[i];\n  }\n  return buf + ']';\n}\n", None),
    # one clone whose source is used afterwards (fine) and one whose source is not (unnecessary-clone): names do not matter
    "clone-kept.rs": ("rust", "fn f(data: Vec<u8>, spare: Vec<u8>) -> usize {\n    let copy = data.clone();\n    consume(copy);\n"
                              "    let extra = spare.clone();\n    consume(extra);\n    data.len()\n}\n", None),
    "magic-consts.ts": ("typescript", _TS_CONSTS, None),
    "magic-consts.js": ("javascript", _TS_CONSTS.replace(": number", ""), None),
    "cqs-fluent.ts": ("typescript", _CQS_FLUENT, None),
    "cqs-fluent.py": ("python", _CQS_FLUENT_PY, None),
    # an extension-less script: its language comes from the shebang line
    "tool": ("python", "#!/usr/bin/env python3\ndef f(x):\n    print(x)\n    return x * 4242\n", None),
    "unwrap-with-tests.rs": ("rust", _RS_TESTS, None),
    "std-net-with-header.rs": ("rust", "/* Copyright (c) Example Corp.\n * Licensed under MIT. */\nuse std::net::TcpStream;\n\nasync fn connect() {\n    let s = TcpStream::connect(\"127.0.0.1:80\");\n    drop(s);\n}\n", None),
    "tokio-net.rs": ("rust", "use tokio::net::TcpStream;\n\nasync fn connect() {\n    let s = TcpStream::connect(\"127.0.0.1:80\").await;\n    drop(s);\n}\n\n"
                             "async fn nap() {\n    std::thread::sleep(std::time::Duration::from_secs(1));\n}\n", None),
    "srp-at-loc-limit.py": ("python", _SRP_PY, {"srp": {"max_loc": 7, "max_methods": 3}}),
    "srp-at-loc-limit.ts": ("typescript", _SRP_TS, {"srp": {"max_loc": 11, "max_methods": 3}}),
    "srp-at-loc-limit.rs": ("rust", _SRP_RS, {"srp": {"max_loc": 14, "max_methods": 3}}),
}


# local identifiers per trigger that no rule's documentation says it inspects
RENAMES = {
    "nest.py": (("i", "idx"), ("b", "bound"), ("fh", "handle")), "nest.ts": (("i", "idx"), ("b", "bound")), "nest.js": (("i", "idx"), ("b", "bound")),
    "nest.rs": (("i", "idx"), ("b", "bound")), "magic.py": (("q", "quantity"),), "magic.ts": (("q", "quantity"),), "magic.js": (("q", "quantity"),),
    "magic.rs": (("q", "quantity"),), "printy.py": (("x", "value"),), "printy.ts": (("x", "value"),), "printy.js": (("x", "value"),),
    "unwrap.rs": (("v", "parsed"), ("s", "text")), "cloney.rs": (("it", "entry"), ("out", "result")), "blocking.rs": (("s", "body"),),
    "lbyl.py": (("d", "mapping"), ("k", "key")), "concat.py": (("it", "piece"),), "regexloop.py": (("it", "entry"), ("out", "result")),
    "clone-kept.rs": (("data", "request"), ("spare", "x"), ("copy", "rx")),
    "concat-two-functions.py": (("buf", "out"),), "concat-two-functions.ts": (("buf", "out"),),
    "pipeline.py": (("item", "entry"), ("out", "kept")), "srp-at-loc-limit.py": (), "cqs.py": (("value", "fetched"),),
}


def _lint(files, config=None):
    """files: dict name -> bytes/str. Returns violations."""
    import src.linter_config.ignore as ign
    from src.orchestrator.core import Orchestrator
    d = _proj()
    paths = []
    for n, c in files.items():
        p = d / "src" / n
        if isinstance(c, bytes):
            p.write_bytes(c)
        else:
            p.write_bytes(c.encode("utf-8"))
        paths.append(p)
    try:
        ign.clear_ignore_parser_cache()
        return Orchestrator(project_root=d, config=config).lint_files(paths)
    finally:
        for p in paths:
            p.unlink()


def _norm_names(msg, table):
    for old, neu in table or ():
        msg = re.sub(r"\b%s\b" % re.escape(neu), old, msg)
    return msg


def _norm_msg(msg):
    msg = re.sub(r"(?i)\bL\d+|\blines? \d+(-\d+)?|:\d+-\d+", "L#", msg).replace("\r", "")
    return re.sub(r"(\.\w+):\d+", r"\1:#", msg)       # file.py:LINE references to other locations shift too


def _keys(vs, name, shift=None, with_column=True):
    out = Counter()
    for v in vs:
        if v.rule_id.startswith(EXCLUDED_RULES):
            continue
        line = v.line
        if shift is not None and Path(v.file_path).name == name:
            q, delta = shift
            if line >= q:
                line -= delta
        out[(v.rule_id, Path(v.file_path).name, line, v.column if with_column else None, _norm_msg(v.message))] += 1
    return out


def h_edits(ctx):
    names = tuple(n for n in triggers.T if n not in SKIP) + ("dup", "strg", "dupconst-ts") + tuple(AT_LIMIT)
    tname = ctx.pick("trigger", names)
    config = None
    if tname in AT_LIMIT:
        lang, text, config = AT_LIMIT[tname]
        files, main = {tname: text}, tname
    elif tname == "dupconst-ts":
        files, main, lang = {"retry_a.ts": _TS_DUP_CONST, "retry_b.ts": _TS_DUP_CONST.replace("first", "second")}, "retry_a.ts", "typescript"
    elif tname == "dup":
        files, main, lang = dict(triggers.DUP_FILES), "dup1.py", "python"
    elif tname == "strg":
        files, main, lang = dict(triggers.STRINGLY_FILES), "strg1.py", "python"
    else:
        lang, _p, _l, text = triggers.T[tname]
        files, main = {tname: text}, tname
    text = files[main]
    lines = text.rstrip("\n").split("\n")
    n = len(lines)
    cm = "#" if lang == "python" else "//"
    edit = ctx.pick("edit", ("insert-blank", "insert-indented-blank", "insert-comment", "insert-non-ascii-comment", "insert-comment-with-old-code", "insert-block-comment", "trailing-whitespace", "reindent-x2", "crlf", "bom",
                             "append-code", "two-edits", "rename-locals", "insert-comment-and-blank-inside-the-duplicate"))
    base = _lint(files, config)
    shift, with_col = None, True
    dry_by_position = False
    new = None
    if edit in ("insert-blank", "insert-indented-blank", "insert-comment", "insert-non-ascii-comment", "insert-comment-with-old-code", "insert-block-comment", "two-edits"):
        q = ctx.pick("insert_before_line", tuple(range(1, n + 2)))
        if q == 1 and lines[0].startswith("#!"):
            ctx.assume(False)      # a line above the shebang is not a meaning-preserving edit (the shebang must come first)
        if tname == "dup" and 2 < q <= n:
            ctx.assume(False)      # a line inserted inside a reported duplicate block changes the block itself
        # keep the inserted line between statements: same indentation as the following line
        nxt = lines[q - 1] if q <= n else ""
        ind = re.match(r"\s*", nxt).group(0)
        ins = "" if edit == "insert-blank" else (ind + "  " if edit == "insert-indented-blank" else ind + cm + " an unrelated remark")
        if edit == "insert-non-ascii-comment":      # multi-byte text: byte offsets and character offsets part ways below it
            ins = ind + cm + " \u0e04\u0e48\u0e32\u0e04\u0e07\u0e17\u0e35\u0e48\u0e2a\u0e33\u0e2b\u0e23\u0e31\u0e1a\u0e01\u0e32\u0e23\u0e25\u0e2d\u0e07\u0e43\u0e2b\u0e21\u0e48 \u5e38\u91cf\u5b9a\u7fa9 \u043a\u043e\u043d\u0441\u0442\u0430\u043d\u0442\u044b"
        if edit == "insert-comment-with-old-code":     # commented-out code is still a comment
            ins = ind + cm + " old: " + {"python": "print(3975); import re as rx; value = compute(4409)",
                                           "typescript": "console.log(3975); const limit = 4409; import fs from 'fs';",
                                           "javascript": "console.log(3975); const limit = 4409; var fs = require('fs');",
                                           "rust": "use std::net::TcpStream; let v = x.unwrap(); let w = y.clone().clone(); std::thread::sleep(d);"}[lang]
        if edit == "insert-block-comment":
            if lang == "python":
                ctx.assume(False)       # no block comments in Python
            ins = ind + "/* an unrelated remark */"
        new_lines = lines[:q - 1] + [ins] + lines[q - 1:]
        delta = 1
        if edit == "two-edits":
            new_lines = [l + "  " for l in new_lines]       # plus trailing whitespace everywhere (blank lines too)
        new = "\n".join(new_lines) + "\n"
        shift = (q + 1, delta)
    elif edit == "insert-comment-and-blank-inside-the-duplicate":
        # two lines that are not code, between two statements of the duplicated block: the block still starts where it did
        # and is still ONE finding per file (its stated length and the quoted ranges may grow: messages are not compared here)
        if tname != "dup":
            ctx.assume(False)
        q = ctx.pick("insert_before_line", tuple(range(3, n + 1)))
        ind = re.match(r"\s*", lines[q - 1]).group(0)
        new = "\n".join(lines[:q - 1] + [ind + cm + " an unrelated remark", ""] + lines[q - 1:]) + "\n"
        shift = (q + 2, 2)
        dry_by_position = True
    elif edit == "trailing-whitespace":
        # blank lines get whitespace too (a whitespace-only line is still a blank line); add one blank line first
        k = max(2, len(lines) // 2)
        with_blank = lines[:k] + [""] + lines[k:]
        new = "\n".join(l + " \t" for l in with_blank) + "\n"
        shift = (k + 2, 1)
    elif edit == "reindent-x2":
        new = "\n".join(re.sub(r"^( +)", lambda m: m.group(1) * 2, l) for l in lines) + "\n"
        with_col = False
    elif edit == "crlf":
        new = "\r\n".join(lines) + "\r\n"
    elif edit == "bom":
        if lines[0].startswith("#!"):
            ctx.assume(False)      # a byte-order mark before a shebang stops it being one
        new = "﻿" + text
        with_col = False     # column of a finding on line 1 may legitimately move by the BOM
    elif edit == "rename-locals":
        # consistent renaming of local variables / parameters (never of functions, classes, or UPPER_CASE constants)
        table = RENAMES.get(tname)
        if not table:
            ctx.assume(False)
        # the new names themselves must not matter either: as tabled, or all starting with the same letter
        style = ctx.pick("new_names", ("as-tabled", "r-prefixed", "underscore-suffixed"))
        table = tuple((old, {"as-tabled": neu, "r-prefixed": "r" + neu, "underscore-suffixed": neu + "_"}[style]) for old, neu in table)
        used_table = table
        new = text
        for old, neu in table:
            new = re.sub(r"\b%s\b" % re.escape(old), neu, new)
        if new == text:
            ctx.assume(False)
        with_col = False       # longer names legitimately move columns
    elif edit == "append-code":
        # another function that happens to reuse local names of the code above, with other types
        tail = {"python": ["", "", "def unrelated_tail(value):", "    s = []", "    out = {}", "    result = 0", "    it = None", "    return value"],
                "typescript": ["", "/* helpers */", "function unrelatedTail(value: string): string {", "  return value;", "}"],
                "javascript": ["", "/* helpers */", "function unrelatedTail(value) {", "  return value;", "}"],
                "rust": ["", "/* helpers */", "fn unrelated_tail(value: String) -> String {", "    value", "}", "",
                         "mod legacy_tail {", "    use std::net::TcpStream;", "", "    pub fn check(addr: &str) -> bool {", "        TcpStream::connect(addr).is_ok()", "    }", "}"]}[lang]
        new = "\n".join(lines + tail) + "\n"
    edited = dict(files)
    edited[main] = new
    after = _lint(edited, config)
    kb = _keys(base, main, None, with_col)
    ka = _keys(after, main, shift, with_col)
    if dry_by_position:
        kb = Counter({(k[0], k[1], k[2], None, "" if k[0].startswith("dry.") else k[4]): c for k, c in kb.items()})
        ka = Counter({(k[0], k[1], k[2], None, "" if k[0].startswith("dry.") else k[4]): c for k, c in ka.items()})
    if edit == "rename-locals":       # messages that quote source text quote the new names
        ka = Counter({(k[0], k[1], k[2], k[3], _norm_names(k[4], used_table)): c for k, c in ka.items()})
        kb = Counter({(k[0], k[1], k[2], k[3], _norm_names(k[4], used_table)): c for k, c in kb.items()})    # a new name may be in use elsewhere already
    ctx.note("trigger", tname)
    ctx.note("edit", edit)
    ctx.cover("has-findings" if kb else "no-findings")
    lost, gained = kb - ka, ka - kb
    ctx.note("lost_rules", sorted({k[0] for k in lost}))
    ctx.note("gained_rules", sorted({k[0] for k in gained}))
    ctx.require("findings-unchanged-up-to-line-shift", not lost and not gained, trigger=tname, edit=edit,
                lost=[list(k)[:4] for k in list(lost)[:3]], gained=[list(k)[:4] for k in list(gained)[:3]])


ASSUMPTIONS = (
    "inserted lines sit between statements (indented like the following line); no edit is made inside a multi-line string",
    "file-header and lazy-ignores findings are left out (header-sensitive / about comments themselves)",
    "columns are not compared for re-indentation and BOM edits",
    "identifier renaming: local variables and parameters of each trigger are renamed by a fixed table (functions, classes and UPPER_CASE constants are never renamed)",
)


def obligations(tier):
    return [
        Ob(name="K2-edits-on-every-trigger", engine="pathex", harness=h_edits,
           functions=["Orchestrator.lint_files", "FileLintContext.file_content/file_lines", "every rule's check()/finalize() incl. DRY tokeniser (normalize_line, _strip_comments) and the ignore parser"],
           bounds="forked: %d catalogue triggers + cross-file duplicate + repeated string set x {blank line, comment line} at every line position, trailing whitespace, indentation doubled, CRLF, BOM, appended unrelated code, two edits combined"
                  % (len(triggers.T) - len(SKIP)),
           timeout=900, workers=14, must_cover=("has-findings",)),
    ]
